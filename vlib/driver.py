"""Check driver: runs the obligations of one property through the gosmt engine (symbolic execution of
/repo's real SSA + SMT), replays every sat answer natively, applies the known-findings list and
writes the evidence file."""
import json, os, re, shutil, subprocess, sys, tempfile, time, hashlib
from concurrent.futures import ThreadPoolExecutor

from . import replay as rp

VERIF = os.path.dirname(os.path.dirname(os.path.abspath(__file__)))
REPO = os.environ.get("VERIF_REPO", "/repo")
GOSMT = os.path.join(VERIF, "bin", "gosmt")
NCPU = int(os.environ.get("VERIF_CPUS", "16"))


def ensure_engine():
    src = os.path.join(VERIF, "engine")
    newest = max(os.path.getmtime(os.path.join(src, f)) for f in os.listdir(src))
    if os.path.exists(GOSMT) and os.path.getmtime(GOSMT) >= newest:
        return
    os.makedirs(os.path.dirname(GOSMT), exist_ok=True)
    env = dict(os.environ, GOFLAGS="-mod=mod", GOPROXY="off", GOSUMDB="off", GOTOOLCHAIN="local")
    subprocess.run(["go", "build", "-o", GOSMT, "."], cwd=src, env=env, check=True)


# ---------------------------------------------------------------- cube enumeration

def edge_lists(N, M, selfloops=False, connected=True, exact=True, simple=False, acyclic=None):
    """canonical edge lists: nodes numbered in first-occurrence order (source before target), exactly as
    graph.EdgeSlice.Populate numbers them. Every edge order, parallel and antiparallel edges included."""
    out = []

    def rec(edges, used):
        if len(edges) == M:
            if exact and used != N:
                return
            if connected and not is_connected(edges, used):
                return
            if acyclic is not None and is_acyclic(edges, used) != acyclic:
                return
            out.append(list(edges))
            return
        for f in range(0, min(used, N - 1) + 1):
            u1 = used + 1 if f == used else used
            for t in range(0, min(u1, N - 1) + 1):
                if f == t and not selfloops:
                    continue
                if simple and ((f, t) in edges or (t, f) in edges):
                    continue
                u2 = u1 + 1 if t == u1 else u1
                if u2 > N:
                    continue
                edges.append((f, t))
                rec(edges, u2)
                edges.pop()

    # first edge: source is node 0
    rec([], 0)
    return out


def is_connected(edges, n):
    if n == 0:
        return True
    adj = {i: set() for i in range(n)}
    for f, t in edges:
        adj[f].add(t)
        adj[t].add(f)
    seen, st = {0}, [0]
    while st:
        x = st.pop()
        for y in adj[x]:
            if y not in seen:
                seen.add(y)
                st.append(y)
    return len(seen) == n


def is_acyclic(edges, n):
    adj = {i: set() for i in range(n)}
    for f, t in edges:
        if f != t:
            adj[f].add(t)
    color = {}

    def dfs(x):
        color[x] = 1
        for y in adj[x]:
            if color.get(y) == 1:
                return False
            if y not in color and not dfs(y):
                return False
        color[x] = 2
        return True

    return all(dfs(i) for i in range(n) if i not in color)


def shape_cube(edges, extra=None):
    c = {"M": len(edges)}
    for i, (f, t) in enumerate(edges):
        c["ef[%d]" % i] = f
        c["et[%d]" % i] = t
    if extra:
        c.update(extra)
    return c


def product(cubes, dims):
    """cartesian product of a cube list with option dimensions {name: [values]}"""
    out = cubes
    for k, vals in dims.items():
        out = [dict(c, **{k: v}) for c in out for v in vals]
    return out


# ---------------------------------------------------------------- running the engine

def run_engine(ob, cubes, workdir, tag):
    cf = os.path.join(workdir, tag + ".cubes.json")
    of = os.path.join(workdir, tag + ".out.json")
    json.dump(cubes, open(cf, "w"))
    cmd = [GOSMT, "run", "-repo", REPO, "-harness", os.path.join(VERIF, "harness"), "-pkg", ob["pkg"], "-func", ob["func"],
           "-cubes", cf, "-out", of, "-loop", str(ob.get("loop", 64)), "-depth", str(ob.get("depth", 12)),
           "-qtimeout", str(ob.get("qtimeout", 60)), "-enctimeout", str(ob.get("enctimeout", 120)),
           "-workers", str(ob.get("qworkers", 1)), "-validate", str(ob.get("validate", 0)),
           "-seed", str(ob.get("seed", 1)), "-prunems", str(ob.get("prunems", 200))]
    if ob.get("cross"):
        cmd.append("-cross")
    if ob.get("decide", True):
        cmd.append("-decide")
    if ob.get("oneshot"):
        cmd.append("-oneshot")
    if os.environ.get("VERIF_KEEPSAT"):
        cmd += ["-keepsat", os.path.join(os.environ["VERIF_KEEPSAT"], ob["name"])]
    cmd += ["-maporder", ob.get("maporder", "fixed"), "-solver", ob.get("solver", "z3")]
    for k, v in ob.get("consts", {}).items():
        cmd += ["-const", "%s=%d" % (k, v)]
    t0 = time.time()
    try:
        p = subprocess.run(cmd, capture_output=True, text=True, timeout=ob.get("proc_timeout", 3000))
        err = p.stderr[-2000:]
    except subprocess.TimeoutExpired:
        return dict(status="error", message="engine process timeout", runs=[], funcs={}, stubs=[], secs=time.time() - t0)
    try:
        o = json.load(open(of))
    except Exception as e:
        return dict(status="error", message="no engine output: %s %s" % (e, err), runs=[], funcs={}, stubs=[], secs=time.time() - t0)
    o["secs"] = time.time() - t0
    return o


def run_validation(ob, workdir):
    """translator validation: a few cubes of the obligation are run again with -validate (sampled concrete inputs, engine-side
    evaluation of the harness' observed outputs), the driver then runs the natively compiled harness on the same values"""
    cubes = ob.get("cubes") or [{}]
    k = ob.get("validate_cubes", 6)
    if k <= 0:
        return []
    step = max(1, len(cubes) // k)
    sel = cubes[::step][:k]
    vob = dict(ob, validate=ob.get("validate_samples", 2), name=ob["name"] + ".validate", maporder="fixed")
    return [run_engine(vob, sel, workdir, vob["name"])]


def run_obligation(ob, workdir):
    cubes = ob.get("cubes") or [{}]
    mx = int(os.environ.get("VERIF_MAXCUBES", "0"))
    if mx and len(cubes) > mx:
        step = len(cubes) / mx
        cubes = [cubes[int(i * step)] for i in range(mx)]
    nproc = max(1, min(NCPU, ob.get("procs", NCPU), len(cubes)))
    # at least one chunk per worker; no chunk larger than ob["chunk"] cubes (slow obligations use small chunks so that one engine
    # process never runs into its process timeout); interleaved so that every chunk sees all shape classes
    nchunk = max(nproc, -(-len(cubes) // ob.get("chunk", 2000)))
    chunks = [cubes[i::nchunk] for i in range(nchunk)]

    def one(ic):
        tag = "%s.%d" % (ob["name"], ic[0])
        o = run_engine(ob, ic[1], workdir, tag)
        if o.get("status") == "error":
            # an engine process that died (killed, out of memory) is retried once before the chunk is reported as an engine error
            o = run_engine(ob, ic[1], workdir, tag + "r")
        return o
    with ThreadPoolExecutor(max_workers=nproc) as tp:
        outs = list(tp.map(one, enumerate(chunks)))
    return outs


# ---------------------------------------------------------------- known findings

def load_known():
    p = os.path.join(VERIF, "known_findings.json")
    if not os.path.exists(p):
        return []
    return json.load(open(p))["findings"]


def match_known(known, prop, obname, kind, label):
    for k in known:
        if k.get("status") != "known" or k["property"] != prop:
            continue
        if re.search(k.get("obligation", ".*"), obname) and re.search(k["label"], label) and k.get("kind", kind) == kind:
            return k
    return None


# ---------------------------------------------------------------- the check

VIOL_KINDS = ("assert", "panic", "unwind", "overflow")


def check(prop, tier, obligations, level="model_checking", seed=0, extra_assumptions=(), explanation=""):
    ensure_engine()
    t0 = time.time()
    known = load_known()
    workdir = tempfile.mkdtemp(prefix="verif_%s_" % prop)
    violations, known_hits, unconfirmed, inconclusive, engine_errors = [], {}, [], [], []
    samples, funcs, stubs, inexact = [], {}, set(), {}
    tot = dict(blocks=0, edges=0, queries=0, trivial=0, nontrivial=0, sat=0, unsat=0, unknown=0, cubes=0, solver_secs=0.0,
               encode_secs=0.0, replays=0, replays_reproduced=0, validated=0, validation_mismatch=0, terms=0, prune_checks=0)
    reach_seen, reach_all = {}, {}
    max_replays = 3
    only = os.environ.get("VERIF_ONLY")  # development aid: run only the obligations whose name matches (never set by a registered command)
    if only:
        obligations = [ob for ob in obligations if re.search(only, ob["name"])]
    try:
        for ob in obligations:
            ob = dict(ob)
            ob.setdefault("seed", seed + 1)
            outs = run_obligation(ob, workdir)
            vouts = run_validation(ob, workdir)
            ob_rec = dict(obligation=ob["name"], harness="%s.%s" % (ob["pkg"], ob["func"]), bounds=ob.get("bounds", ""),
                          cubes=len(ob.get("cubes") or [{}]), queries=0, nontrivial=0, sat=0, unsat=0, unknown=0,
                          solver_secs=0.0, encode_secs=0.0, wall_secs=round(max([o.get("secs", 0) for o in outs] + [0]), 1),
                          verdicts={}, example_cube=None, example_query=None)
            replayed = {}
            for o in outs:
                if o.get("status") != "ok":
                    engine_errors.append("%s: %s %s" % (ob["name"], o.get("status"), o.get("message", "")[:500]))
                    continue
                funcs.update(o.get("funcs") or {})
                stubs.update(o.get("stubs") or [])
                for r in o["runs"]:
                    tot["cubes"] += 1
                    if r["status"] != "ok":
                        if ob.get("hang_probe") and "encode-t" in r.get("message", ""):
                            # the engine exhausted its (generous) budget on a concrete cube: candidate hang / runaway memory.
                            # Confirmed natively under a watchdog; only a reproduced hang is reported.
                            rdir = os.path.join(VERIF, "replays", prop, "%s-hang-%d" % (ob["name"], len(violations)))
                            res = rp.replay(ob["pkg"], ob["func"], r["consts"], {}, repeat=1, timeout=ob.get("hang_timeout", 30), keep_dir=rdir)
                            tot["replays"] += 1
                            if res["outcome"] in ("timeout", "crash"):
                                tot["replays_reproduced"] += 1
                                meta = dict(property=prop, obligation=ob["name"], pkg=ob["pkg"], func=ob["func"], kind="unwind",
                                            label="Layout does not return within the time/memory budget (engine budget exhausted, native run %s)" % res["outcome"],
                                            consts=r["consts"], values={}, native=dict((k, v) for k, v in res.items() if k != "raw"), reproduced=True)
                                os.makedirs(rdir, exist_ok=True)
                                json.dump(meta, open(os.path.join(rdir, "meta.json"), "w"), indent=1)
                                violations.append(dict(meta, replay=rdir))
                                continue
                        inconclusive.append(dict(obligation=ob["name"], cube=r["consts"], reason=r["status"] + ": " + r.get("message", "")[:300]))
                        continue
                    if r["n_queries"] == 0 or not any(q["kind"] == "reach" and q["verdict"] == "sat" for q in (r["queries"] or [])):
                        if not r.get("check_panics"):
                            inconclusive.append(dict(obligation=ob["name"], cube=r["consts"], reason="harness never reaches its checks in this cube: "
                                                     "the code under test panics or diverges on every path (panics are C01's subject)"))
                    tot["blocks"] += r["blocks"]
                    tot["edges"] += r["edges"]
                    tot["terms"] += r["terms"]
                    tot["prune_checks"] += r["prune_checks"]
                    tot["queries"] += r["n_queries"]
                    tot["trivial"] += r["n_trivial"]
                    tot["encode_secs"] += r["encode_secs"]
                    ob_rec["queries"] += r["n_queries"]
                    ob_rec["encode_secs"] += r["encode_secs"]
                    hidden = r["n_queries"] - len(r["queries"] or [])  # trivially-unsat queries are not listed by the engine
                    ob_rec["unsat"] += hidden
                    tot["unsat"] += hidden
                    for k, v in (r.get("inexact") or {}).items():
                        inexact[k] = inexact.get(k, 0) + v
                    if ob_rec["example_cube"] is None:
                        ob_rec["example_cube"] = r["consts"]
                    for q in r["queries"] or []:
                        key = (q["kind"], q["label"])
                        if not q["trivial"]:
                            tot["nontrivial"] += 1
                            ob_rec["nontrivial"] += 1
                            tot["solver_secs"] += q["secs"]
                            ob_rec["solver_secs"] += q["secs"]
                            if ob_rec["example_query"] is None and q["kind"] != "reach":
                                ob_rec["example_query"] = dict(kind=q["kind"], label=q["label"], verdict=q["verdict"], secs=round(q["secs"], 3),
                                                               dag_nodes=q["nodes"], solver=q["solver"], cube=r["consts"])
                        v = q["verdict"]
                        ob_rec["verdicts"].setdefault("%s:%s" % key, {}).setdefault(v, 0)
                        ob_rec["verdicts"]["%s:%s" % key][v] += 1
                        if v in ("sat", "unsat"):
                            tot[v] += 1
                            ob_rec[v] += 1
                        else:
                            tot["unknown"] += 1
                            ob_rec["unknown"] += 1
                        if q["kind"] == "reach":
                            reach_all[(ob["name"], q["label"])] = True
                            if v == "sat":
                                reach_seen[(ob["name"], q["label"])] = True
                            continue
                        if v == "unsat":
                            continue
                        if v != "sat":
                            inconclusive.append(dict(obligation=ob["name"], cube=r["consts"], query=q["label"], reason="solver: " + v + " " + q.get("solver", "")))
                            continue
                        # sat: candidate violation (or known finding) -> native replay
                        kf = match_known(known, prop, ob["name"], q["kind"], q["label"])
                        if q["kind"] == "known" and kf is None:
                            kf = dict(id=q["label"], description=q["label"])
                        if q["kind"] == "known":
                            # vhKnown labels are listed findings by construction; they must be in the file
                            if not any(k["id"] == q["label"] and k.get("status") == "known" for k in known):
                                kf = None
                        nrep = replayed.get(key, 0)
                        if nrep >= ob.get("max_replays", max_replays):
                            continue
                        replayed[key] = nrep + 1
                        vals = rp.build_values(r.get("nondets") or [], q.get("model") or {})
                        has_picks = any(nd["Kind"] in ("pick", "rand") for nd in (r.get("nondets") or []))
                        rdir = os.path.join(VERIF, "replays", prop, "%s-%s-%d" % (ob["name"], hashlib.sha1(q["label"].encode()).hexdigest()[:8], nrep))
                        shared = q["label"].startswith("no-write-to-package-level-state")
                        ras = ob.get("replay_as")
                        if ras:
                            # kernel candidate: confirmed through the public API only - the Layout-level harness of the property runs natively
                            # on the same edge list (repeated: map order / RNG differ between runs); any failed assertion there reproduces it
                            rc = {k: v for k, v in r["consts"].items() if re.match(r"^(M|ef\[|et\[)", k)}
                            rc.update(ras["consts"])
                            res = rp.replay(ras["pkg"], ras["func"], rc, {}, repeat=ras.get("repeat", 400), timeout=ob.get("replay_timeout", 300), keep_dir=rdir)
                        elif shared:
                            res = rp.replay_race(ob["pkg"], r["consts"], vals, keep_dir=rdir)
                        else:
                            res = rp.replay(ob["pkg"], ob["func"], r["consts"], vals, repeat=(ob.get("replay_repeat", 400) if has_picks else 1),
                                            timeout=ob.get("replay_timeout", 120), keep_dir=rdir)
                        tot["replays"] += 1
                        reproduced = False
                        if ras:
                            reproduced = bool(res["failed"]) or res["outcome"] in ("panic", "crash")
                        elif shared:
                            reproduced = res["outcome"] == "race"
                        elif q["kind"] in ("assert", "known"):
                            reproduced = q["label"] in res["failed"] or q["label"] in res["known"]
                        elif q["kind"] == "panic":
                            reproduced = res["outcome"] in ("panic", "crash")
                        elif q["kind"] == "unwind":
                            reproduced = res["outcome"] in ("timeout", "crash")
                        elif q["kind"] == "overflow":
                            reproduced = res["outcome"] != "clean"
                        meta = dict(property=prop, obligation=ob["name"], pkg=ob["pkg"], func=ob["func"], kind=q["kind"], label=q["label"],
                                    consts=r["consts"], values=vals, native=dict((k, v) for k, v in res.items() if k != "raw"), reproduced=reproduced)
                        if ras:
                            meta.update(pkg=ras["pkg"], func=ras["func"], consts=rc, values={}, kernel=dict(pkg=ob["pkg"], func=ob["func"], consts=r["consts"], values=vals))
                        os.makedirs(rdir, exist_ok=True)
                        json.dump(meta, open(os.path.join(rdir, "meta.json"), "w"), indent=1)
                        if reproduced:
                            tot["replays_reproduced"] += 1
                            if kf is not None:
                                known_hits.setdefault(kf["id"], dict(finding=kf, count=0, example=meta))
                                known_hits[kf["id"]]["count"] += 1
                                shutil.rmtree(rdir, ignore_errors=True)
                            else:
                                violations.append(dict(meta, replay=rdir))
                        else:
                            unconfirmed.append(dict(obligation=ob["name"], label=q["label"], cube=r["consts"], values=vals, native=res["outcome"],
                                                    trivial=q.get("trivial"), dag_nodes=q.get("nodes"), solver=q.get("solver"), secs=q.get("secs"),
                                                    model_size=len(q.get("model") or {})))
                            shutil.rmtree(rdir, ignore_errors=True)
            for o in vouts:
                if o.get("status") != "ok":
                    continue
                for r in o["runs"]:
                    for smp in r.get("validation_samples") or []:
                        if not smp.get("observed"):
                            continue
                        res = rp.replay(ob["pkg"], ob["func"], r["consts"], smp["values"], repeat=1, timeout=120)
                        got = re.search(r"VH-OBSERVED (\[.*\])", res.get("raw", ""))
                        exp = "[" + " ".join(json.dumps(x) for x in smp["observed"]) + "]"
                        if res["outcome"] == "assume-violated" or got is None:
                            continue
                        if got.group(1) == exp:
                            tot["validated"] += 1
                        elif smp.get("has_picks"):
                            pass  # map order / RNG picks cannot be forced natively
                        else:
                            tot["validation_mismatch"] += 1
                            engine_errors.append("translator validation mismatch in %s cube %s values %s: engine %s native %s" % (
                                ob["name"], r["consts"], smp["values"], exp[:700], got.group(1)[:700]))
            ob_rec["solver_secs"] = round(ob_rec["solver_secs"], 2)
            ob_rec["encode_secs"] = round(ob_rec["encode_secs"], 2)
            samples.append(ob_rec)
        # vacuity: every reach label must be satisfiable in at least one cube of its obligation
        for k in reach_all:
            if k not in reach_seen:
                engine_errors.append("vacuity: reach label %s of obligation %s is unreachable in every cube" % (k[1], k[0]))
    finally:
        shutil.rmtree(workdir, ignore_errors=True)

    wall = time.time() - t0
    exhaustive = not inconclusive and not engine_errors and not unconfirmed
    ev = dict(
        property_id=prop, tier=tier, seed=seed, level=level, wall_s=round(wall, 1), violations=len(violations),
        coverage=dict(
            states=max(tot["blocks"], 1), transitions=max(tot["edges"], 1),
            traces_validated_against_impl=tot["validated"] + tot["replays_reproduced"],
            samples=samples,
            evaluations=max(tot["queries"], 1), distinct_nontrivial=tot["nontrivial"],
            rule="one evaluation = one solver query (assertion / panic site / unwinding / reachability) of one cube; non-trivial = the query "
                 "formula was NOT decided by the term simplifier alone and went to the SMT solver (counted by the engine); distinct because "
                 "each (cube, kind, label) is issued once",
            obligations=tot["queries"], discharged=tot["sat"] + tot["unsat"] + tot["trivial"],
            exhaustive=exhaustive,
            explanation=explanation,
            cubes=tot["cubes"], sat=tot["sat"], unsat=tot["unsat"], unknown=tot["unknown"],
            solver_secs=round(tot["solver_secs"], 1), encode_secs=round(tot["encode_secs"], 1), terms=tot["terms"],
            pruning_solver_checks=tot["prune_checks"],
            native_replays=tot["replays"], native_replays_reproduced=tot["replays_reproduced"],
            translator_validation_runs=tot["validated"], translator_validation_mismatches=tot["validation_mismatch"],
            functions_encoded=funcs, inconclusive=inconclusive[:50], n_inconclusive=len(inconclusive),
            unconfirmed_models=unconfirmed[:20], engine_errors=engine_errors[:20],
            known_findings=[dict(id=k, count=v["count"], what=v["finding"].get("description", "")) for k, v in known_hits.items()],
            solver="z3 4.8.12 (final queries, one fresh process each); pruning: incremental z3 -in",
        ),
        assumptions=sorted(stubs) + ["inexact: %s x%d" % kv for kv in sorted(inexact.items())] + list(extra_assumptions),
    )
    evdir = os.environ.get("VERIF_EVIDENCE_DIR") or os.path.join(VERIF, "evidence")  # development runs against a scratch tree write elsewhere
    os.makedirs(evdir, exist_ok=True)
    json.dump(ev, open(os.path.join(evdir, prop + ".json"), "w"), indent=1)

    for k, v in known_hits.items():
        print("KNOWN-FINDING: property=%s %s: %s (reproduced natively, %d cube(s); e.g. %s)" % (
            prop, k, v["finding"].get("description", ""), v["count"], json.dumps(v["example"]["consts"])))
    for e in engine_errors:
        print("ENGINE-ERROR: " + e)
    for u in unconfirmed[:10]:
        print("UNCONFIRMED: %s %s (model did not reproduce natively: %s; trivial=%s nodes=%s model_size=%s)" % (
            u["obligation"], u["label"], u["native"], u.get("trivial"), u.get("dag_nodes"), u.get("model_size")))
    if inconclusive:
        print("INCONCLUSIVE: %d queries/cubes undecided (see evidence); first: %s" % (len(inconclusive), json.dumps(inconclusive[0])[:400]))
    print("%s %s: %d cubes, %d queries (%d non-trivial, %d sat, %d unsat, %d unknown), %d native replays, %d validation runs, %.0fs" % (
        prop, tier, tot["cubes"], tot["queries"], tot["nontrivial"], tot["sat"], tot["unsat"], tot["unknown"], tot["replays"], tot["validated"], wall))
    if violations:
        for v in violations:
            print("VIOLATION property=%s replay=%s" % (prop, v["replay"]))
            print("  obligation=%s %s:%s cube=%s values=%s" % (v["obligation"], v["kind"], v["label"], json.dumps(v["consts"]), json.dumps(v["values"])))
        return 1
    if engine_errors and tot["sat"] + tot["unsat"] == 0:
        return 3  # nothing could be decided at all: the check did not run
    return 0


def replay_dir(path):
    meta = json.load(open(os.path.join(path, "meta.json")))
    res = rp.replay(meta["pkg"], meta["func"], meta["consts"], meta["values"], repeat=400, timeout=300)
    print(json.dumps(dict((k, v) for k, v in res.items() if k != "raw"), indent=1))
    print(res.get("raw", "")[-3000:])
    return 0
