"""Native replay of a solver model: the harness is compiled as ordinary Go (native prelude), fed the
model's values through a JSON file and run with `go test -overlay` against /repo's working tree."""
import json, os, re, shutil, subprocess, tempfile

VERIF = os.path.dirname(os.path.dirname(os.path.abspath(__file__)))
REPO = os.environ.get("VERIF_REPO", "/repo")
GOENV = dict(os.environ, GOFLAGS="-mod=mod", GOPROXY="off", GOSUMDB="off", GOTOOLCHAIN="local")


def pkg_name(hdir):
    for f in sorted(os.listdir(hdir)):
        if f.endswith(".go"):
            for line in open(os.path.join(hdir, f)):
                if line.startswith("package "):
                    return line.split()[1]
    raise RuntimeError("no package clause in " + hdir)


def build_values(nondets, model):
    """name -> list of values in call order (the engine numbers calls per name in execution order)"""
    vals = {}
    for nd in nondets:
        if nd["Kind"] in ("pick", "rand"):
            continue
        v = model.get(nd["Var"])
        if v is None:
            v = {"int": "0", "real": "0", "bool": "false", "str": "s:"}[nd["Kind"]]
        vals.setdefault(nd["Name"], []).append(v)
    return vals


def replay_race(pkg_rel, consts, values, timeout=300, keep_dir=None):
    """C15: concurrent Layout calls on the cube under the race detector; reproduced if the detector (or the runtime's
    concurrent-map check) fires"""
    return replay(pkg_rel, None, consts, values, timeout=timeout, keep_dir=keep_dir, race=True)


def replay(pkg_rel, harness, consts, values, repeat=1, timeout=120, mem_gb=8, keep_dir=None, race=False):
    """returns dict(outcome=clean|failed|panic|assume-violated|timeout|build-error|crash, failed=[...], known=[...],
    panic=str, raw=str)"""
    hsub = "_root" if pkg_rel == "." else pkg_rel
    hdir = os.path.join(VERIF, "harness", hsub)
    pname = pkg_name(hdir)
    work = tempfile.mkdtemp(prefix="vhreplay")
    try:
        overlay = {}
        for f in sorted(os.listdir(hdir)):
            if f.endswith(".go"):
                overlay[os.path.join(REPO, pkg_rel, "zz_verif_" + f)] = os.path.join(hdir, f)
        nat = open(os.path.join(VERIF, "harness", "vh_native.go.tmpl")).read().replace("PKGNAME", pname)
        p = os.path.join(work, "vh_native.go")
        open(p, "w").write(nat)
        overlay[os.path.join(REPO, pkg_rel, "zz_verif_vh.go")] = p
        if race:
            tst = open(os.path.join(VERIF, "harness", "vh_race_test.go.tmpl")).read().replace("PKGNAME", pname)
        else:
            tst = open(os.path.join(VERIF, "harness", "vh_replay_test.go.tmpl")).read().replace("PKGNAME", pname).replace("HARNESS", harness)
        p = os.path.join(work, "vh_replay_test.go")
        open(p, "w").write(tst)
        overlay[os.path.join(REPO, pkg_rel, "zz_verif_replay_test.go")] = p
        ov = os.path.join(work, "overlay.json")
        json.dump({"Replace": overlay}, open(ov, "w"))
        rp = os.path.join(work, "replay.json")
        json.dump({"values": values, "consts": consts}, open(rp, "w"))
        env = dict(GOENV, VH_REPLAY=rp, VH_REPEAT=str(repeat))
        if race:
            cmd = ["bash", "-c", "exec go test -race -v -vet=off -count=1 -overlay %s -run '^TestVerifRace$' -timeout %ds ./%s" % (ov, timeout, pkg_rel)]
        else:
            cmd = ["bash", "-c", "ulimit -v %d; exec go test -v -vet=off -count=1 -overlay %s -run '^TestVerifReplay$' -timeout %ds ./%s" % (
                mem_gb * 1024 * 1024, ov, timeout, pkg_rel)]
        try:
            r = subprocess.run(cmd, cwd=REPO, env=env, capture_output=True, text=True, timeout=timeout + 60)
            raw = r.stdout + r.stderr
        except subprocess.TimeoutExpired as e:
            return dict(outcome="timeout", failed=[], known=[], panic="", raw=str(e))
        res = dict(outcome="crash", failed=[], known=[], panic="", raw=raw[-6000:])
        if race:
            res["outcome"] = "race" if ("DATA RACE" in raw or "concurrent map" in raw) else ("clean" if "VH-RACE done" in raw else "crash")
            if keep_dir:
                os.makedirs(keep_dir, exist_ok=True)
                shutil.copy(rp, os.path.join(keep_dir, "replay.json"))
                open(os.path.join(keep_dir, "native_output.txt"), "w").write(raw[-20000:])
            return res
        m = re.search(r"VH-RESULT run=(\d+) (.*)", raw)
        if m:
            rest = m.group(2)
            if rest.startswith("clean"):
                res["outcome"] = "clean"
            elif rest.startswith("assume-violated"):
                res["outcome"] = "assume-violated"
            else:
                fm = re.search(r'failed=(\[.*?\]) known=(\[.*?\]) panic="(.*)" missing', rest)
                if fm:
                    res["failed"] = re.findall(r'"([^"]*)"', fm.group(1))
                    res["known"] = re.findall(r'"([^"]*)"', fm.group(2))
                    res["panic"] = fm.group(3)
                    res["outcome"] = "panic" if fm.group(3) else "failed"
                sm = re.search(r"VH-PANIC-STACK\n(.*?)VH-PANIC-END", raw, re.S)
                if sm:
                    res["stack"] = sm.group(1)[-3000:]
        elif "panic: test timed out" in raw or "test timed out" in raw:
            res["outcome"] = "timeout"
        elif "[build failed]" in raw or "cannot find" in raw or "syntax error" in raw:
            res["outcome"] = "build-error"
        elif "stack overflow" in raw or "out of memory" in raw or "cannot allocate" in raw:
            res["outcome"] = "crash"
        if keep_dir:
            os.makedirs(keep_dir, exist_ok=True)
            shutil.copy(rp, os.path.join(keep_dir, "replay.json"))
            open(os.path.join(keep_dir, "native_output.txt"), "w").write(raw[-20000:])
        return res
    finally:
        shutil.rmtree(work, ignore_errors=True)


if __name__ == "__main__":
    import sys
    o = json.load(open(sys.argv[1]))
    label = sys.argv[2]
    for r in o["runs"]:
      for q in r["queries"]:
        if q["label"] == label and q["verdict"] == "sat":
            vals = build_values(r["nondets"], q["model"])
            print(vals)
            out = replay(o["pkg"], o["harness"], r["consts"], vals, repeat=int(sys.argv[3]) if len(sys.argv) > 3 else 1)
            print({k: v for k, v in out.items() if k != "raw"})
            if out["outcome"] in ("crash", "build-error"):
                print(out["raw"])
