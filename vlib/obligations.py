"""Per-property obligations: which harness is driven over which cubes with which bounds."""
from .driver import edge_lists, shape_cube, product


def phase1_cubes(N, M, fixed=None):
    """all canonical connected loop-free edge lists, fully concretised (fixed = M) or with a symbolic tail"""
    out = []
    fixed = M if fixed is None else fixed
    seen = set()
    for el in edge_lists(N, M):
        pre = tuple(el[:fixed])
        if pre in seen:
            continue
        seen.add(pre)
        c = {"N": N, "M": M, "fixed": fixed}
        for i, (f, t) in enumerate(pre):
            c["ef[%d]" % i] = f
            c["et[%d]" % i] = t
        out.append(c)
    return out


def C14(tier):
    obs = []
    base = {"PANICS": 0, "RANDOM": 0, "KNOWN_G1": 0}
    # fully symbolic shapes (solver picks the edge list)
    sym = [(2, 2), (2, 3)] if tier == "quick" else [(2, 2), (2, 3), (2, 4)]
    for alg, an in ((1, "dfs"), (0, "greedy")):
        cubes = [dict(c) for (n, m) in sym for c in phase1_cubes(n, m, fixed=0)]
        obs.append(dict(name="phase1-%s-symbolic" % an, pkg="internal/phase1", func="Harness_Phase1", consts=dict(base, ALG=alg),
                        cubes=cubes, bounds="edge endpoints symbolic, (N,M) in %s" % sym, enctimeout=200, qtimeout=120))
    # shape cubes with one symbolic tail edge / fully concretised shapes; solver decides map orders
    grid = [(2, 2), (2, 3), (3, 2), (3, 3), (3, 4)] if tier == "quick" else [(2, 2), (2, 3), (2, 4), (3, 2), (3, 3), (3, 4), (3, 5), (4, 3), (4, 4), (4, 5)]
    for alg, an in ((1, "dfs"), (0, "greedy")):
        cubes = [c for (n, m) in grid for c in phase1_cubes(n, m)]
        obs.append(dict(name="phase1-%s-cubes" % an, pkg="internal/phase1", func="Harness_Phase1", consts=dict(base, ALG=alg),
                        cubes=cubes, bounds="all canonical connected edge lists with (N,M) in %s as cubes; symbolic: map iteration order" % grid))
    return dict(obligations=obs)


REG = {"C14": C14}


def get(prop, tier):
    f = REG.get(prop)
    return f(tier) if f else None
