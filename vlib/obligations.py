import os
"""Per-property obligations: which harness is driven over which cubes with which bounds.

A cube concretises the *shape* dimension (edge list / option set / history); everything else stays
symbolic and is decided by the solver: node sizes, spacings, map iteration orders, RNG picks, node
names, alternative layerings. Bounds registered here are the ones that run clean on the unchanged
tree (see DESIGN.md)."""
from .driver import edge_lists, shape_cube, product, is_connected


def phase1_cubes(N, M, fixed=None):
    """canonical connected loop-free edge lists, fully concretised (fixed = M) or with a symbolic tail"""
    out = []
    fixed = M if fixed is None else fixed
    seen = set()
    for el in edge_lists(N, M):
        pre = tuple(el[:fixed])
        if pre in seen:
            continue
        seen.add(pre)
        c = {"N": N, "M": M, "fixed": fixed}
        for i, (f, t) in enumerate(pre):
            c["ef[%d]" % i] = f
            c["et[%d]" % i] = t
        out.append(c)
    return out


def phase1_shape_cube(el):
    c = {"N": 1 + max(max(e) for e in el), "M": len(el), "fixed": len(el)}
    for i, (f, t) in enumerate(el):
        c["ef[%d]" % i] = f
        c["et[%d]" % i] = t
    return c


def phase1_multigraph_ob(name, tier, alg, panics):
    q = tier == "quick"
    ms = multi_shapes(4, 4, 7) if q else multi_shapes(4, 4, 8) + [x for x in multi_shapes(4, 5, 8) if len(set(x)) == 5][::2]
    return dict(name=name, pkg="internal/phase1", func="Harness_Phase1", consts={"PANICS": panics, "RANDOM": 0, "KNOWN_G1": 0, "ALG": alg},
                cubes=[phase1_shape_cube(x) for x in ms], maporder="symbolic",
                bounds="real phase1.Alg.Process (pre-pass, %s breaker, cycle re-check) on MULTIGRAPHS: every simple canonical connected loop-free shape with <= 4 nodes and <= 4 distinct "
                       "edges, each edge repeated 1..3 times (copies adjacent in the input), at most %s; symbolic: map iteration orders"
                       % ("greedy" if alg == 0 else "depth-first", "7 edges" if q else "8 edges; plus every 2nd such list with 5 distinct edges"))


def canon(el):
    """renumber nodes in first-occurrence order (source before target), as EdgeSlice.Populate does"""
    ren, out = {}, []
    for a, b in el:
        for v in (a, b):
            if v not in ren:
                ren[v] = len(ren)
        out.append((ren[a], ren[b]))
    return out


def peel_family():
    """a directed cycle of length 3 or 4 next to an acyclic part that the greedy breaker peels off first: s sources feeding a hub t, u sinks below t,
    t linked to the cycle in either direction; the roots listed before or after the cycle (7..11 nodes)"""
    out = []
    for L in (3, 4):
        cyc = [("c%d" % i, "c%d" % ((i + 1) % L)) for i in range(L)]
        for s in (1, 2, 3, 4):
            for link in (("c0", "t"), ("t", "c0")):
                for u in (0, 1, 2):
                    roots = [("r%d" % i, "t") for i in range(s)] + [("t", "u%d" % i) for i in range(u)]
                    for el in (roots + [link] + cyc, cyc + [link] + roots, roots[:1] + cyc + [link] + roots[1:]):
                        c = canon(el)
                        if c not in out:
                            out.append(c)
    return out


def phase1_peel_ob(name, alg):
    return dict(name=name, pkg="internal/phase1", func="Harness_Phase1", consts={"PANICS": 1, "RANDOM": 0, "KNOWN_G1": 0, "ALG": alg},
                cubes=[phase1_shape_cube(x) for x in peel_family()], maporder="symbolic", enctimeout=200,
                bounds="real phase1.Alg.Process (%s breaker) on a structured family with 5..11 nodes: a 3- or 4-cycle next to an acyclic part that is peeled off first "
                       "(1..4 sources feeding a hub, 0..2 sinks below it, hub linked to the cycle in either direction, three edge orders); symbolic: map iteration orders"
                       % ("greedy" if alg == 0 else "depth-first"))


def shapes(maxN, maxM, selfloops=True, connected=False, **kw):
    out = []
    for N in range(1, maxN + 1):
        for M in range(1, maxM + 1):
            out += edge_lists(N, M, selfloops=selfloops, connected=connected, **kw)
    return out


def multi_shapes(maxN, maxD, maxTotal, maxMult=3):
    """multigraphs: every simple canonical connected loop-free shape with <= maxN nodes and <= maxD distinct edges, each edge
    repeated 1..maxMult times (the copies adjacent in the input, so the canonical numbering is the shape's), at most maxTotal
    edges in total and at least one edge repeated (the all-ones vectors are the ordinary shapes)"""
    import itertools
    res = []
    for N in range(2, maxN + 1):
        for D in range(N - 1, maxD + 1):
            for el in edge_lists(N, D, selfloops=False, connected=True, simple=True):
                for mult in itertools.product(range(1, maxMult + 1), repeat=D):
                    if sum(mult) > maxTotal or max(mult) == 1:
                        continue
                    res.append([e for e, k in zip(el, mult) for _ in range(k)])
    return res


def trees(maxN, out=True):
    """all rooted trees on <= maxN nodes as canonical edge lists in every edge order"""
    res = []
    for N in range(2, maxN + 1):
        for el in edge_lists(N, N - 1, selfloops=False, connected=True, simple=True):
            indeg = [0] * N
            outdeg = [0] * N
            for f, t in el:
                outdeg[f] += 1
                indeg[t] += 1
            if out and sorted(indeg) == [0] + [1] * (N - 1):
                res.append(el)
            if not out and sorted(outdeg) == [0] + [1] * (N - 1):
                res.append(el)
    return res


OPT_DEFAULT = {"REN": 0, "IDSET": 0, "P1": 0, "P2": 0, "P3": 1, "P4": 4, "P5": 2, "BK": -1, "SZ": 2, "VIRT": 0, "INTSZ": 0, "NSFIX": -1, "LSFIX": -1, "MINNS": 0, "MAXSZ": 64}
SYMB = "symbolic (solver): per-node W,H in [0,64], NodeSpacing, LayerSpacing in [0,64]"


LAYOUT_CAP = 16000


def layout_ob(name, func, shape_list, dims, consts=None, cap=LAYOUT_CAP, **kw):
    """shapes x option grid. Above `cap` cubes the shapes with the largest edge count keep only every k-th option combination,
    rotating with the shape index (every shape is still explored, every option combination still meets every k-th shape);
    the reduction is stated in the bounds text"""
    shape_cubes = [shape_cube(s) for s in shape_list]
    cubes = product(shape_cubes, dims)
    if len(cubes) > cap and dims:
        ncombo = len(cubes) // len(shape_cubes)
        maxm = max(len(s) for s in shape_list)
        small = sum(1 for s in shape_list if len(s) < maxm) * ncombo
        big = len(cubes) - small
        k = min(ncombo, max(2, -(-big // max(1, cap - small))))
        kept = []
        for si, sc in enumerate(shape_cubes):
            combos = product([sc], dims)
            if sc["M"] < maxm:
                kept += combos
            else:
                kept += [c for ci, c in enumerate(combos) if (si + ci) % k == 0]
        cubes = kept
        kw["bounds"] = kw.get("bounds", "") + " [shapes with M=%d: every %d-th option combination per shape, rotating with the shape index]" % (maxm, k)
    c = dict(OPT_DEFAULT)
    c.update(consts or {})
    return dict(name=name, pkg=".", func=func, consts=c, cubes=cubes, **kw)


def nm(q, a, b):
    return a if q else b


# ------------------------------------------------------------------------------------------------

def has_long_edge_candidate(el):
    """some a->b, b->c, a->c (any edge order): the network simplex draws a->c across two bands"""
    es = set(el)
    return any((a, b) in es and (b, c) in es and (a, c) in es for a in range(6) for b in range(6) for c in range(6) if len({a, b, c}) == 3)


def big_shapes():
    def ladder(k):
        e, cur, nxt = [], 0, 1
        for _ in range(k):
            a, b, t = nxt, nxt + 1, nxt + 2
            e += [(cur, a), (cur, b), (a, t), (b, t)]
            cur, nxt = t, t + 1
        return e
    path = [(i, i + 1) for i in range(50)]
    star_out = [(0, i) for i in range(1, 40)]
    star_in = [(0, 1)] + [(i, 1) for i in range(2, 40)]
    cyc = [(i, i + 1) for i in range(29)] + [(29, 0)]
    bip = []
    # K(5,5) in canonical numbering: left 0, then rights 1..5, then lefts 6..9
    rights = [1, 2, 3, 4, 5]
    lefts = [0, 6, 7, 8, 9]
    for l in lefts:
        for r in rights:
            bip.append((l, r))
    tree = [(i, 2 * i + 1) for i in range(31)] + [(i, 2 * i + 2) for i in range(31)]
    tree.sort(key=lambda e: e[1])
    two = []
    for i in range(20):
        two += [(i, i + 1), (i + 1, i)]
    def two_paths(L, cross_at, extra_at):
        e, nid = [], {}

        def N(x):
            if x not in nid:
                nid[x] = len(nid)
            return nid[x]
        N(("a", 0))
        for i in range(L - 1):
            e.append((N(("a", i)), N(("a", i + 1))))
            if i == 0:
                e.append((N(("a", 0)), N(("b", 1))))
            if i >= 1:
                e.append((N(("b", i)), N(("b", i + 1))))
            if i == cross_at:
                e.append((N(("a", i)), N(("b", i + 1))))
                e.append((N(("b", i)), N(("a", i + 1))))
            if i == extra_at:
                e.append((N(("a", i)), N(("c", i + 1))))
        return e
    return {"two-paths-70-layers-a": two_paths(70, 65, 65), "two-paths-70-layers-b": two_paths(70, 66, 64), "diamond-ladder-48": ladder(48), "path-51": path, "out-star-40": star_out, "in-star-40": star_in, "cycle-30": cyc, "K5,5": bip,
            "binary-tree-63": tree, "two-cycle-chain-21": two}


def C01(tier):
    q = tier == "quick"
    N, M = nm(q, (3, 3), (4, 4))
    sh = shapes(N, M)
    obs = [layout_ob("layout-returns", "Harness_E_C01", sh, {"P1": [0, 1], "P2": [0, 1], "P4": [4, 1, 5]},
                     consts={"P5": 2, "SZ": 2},
                     bounds="all canonical edge lists N<=%d M<=%d (self-loops, parallel/antiparallel edges, several components) x {greedy,dfs} x {NS,LP} x "
                            "{SinkColoring,VAlign,PackRight}, polyline; %s; every explicit panic, run-time panic site and loop/recursion budget is a query" % (N, M, SYMB)),
           layout_ob("layout-returns-routers", "Harness_E_C01", sh, {"P5": [0, 1, 3], "P1": [0, 1]},
                     consts={"P2": 0, "P4": 4, "SZ": 2}, bounds="same shapes x {no routing, straight, ortho} x {greedy,dfs}, SinkColoring"),
           layout_ob("layout-returns-greedy-random", "Harness_E_C01", shapes(3, 3) if q else shapes(3, 3) + shapes(4, 4, selfloops=False, connected=True, acyclic=False)[::4], {"P2": [0, 1]},
                     consts={"P1": 2, "P4": 4, "P5": 2, "SZ": 0}, enctimeout=60,
                     bounds="%s x greedy with RNG picks chosen by the solver (rand.Intn = arbitrary value in range)" % nm(q, "N<=3 M<=3", "N<=3 M<=3 and every 4th cyclic connected list with N<=4 M<=4")),
           layout_ob("layout-returns-large", "Harness_E_C01", list(big_shapes().values()), {"P1": [0, 1], "P2": [0, 1]},
                     consts={"P4": 4, "P5": 2, "SZ": 0, "NSFIX": 10, "LSFIX": 20}, loop=8192, depth=300, enctimeout=120, hang_probe=True, hang_timeout=30, validate_cubes=2,
                     bounds="time/memory budget probe on 10 structured graphs with 21..145 nodes and up to 70 layers (%s) x {greedy,dfs} x {NS,LP}, default positioner and router, no sizes; "
                            "the engine's loop (8192) / recursion (300) / time (120 s) budgets are the 'generous budget'; an exhausted budget is confirmed natively under a 30 s watchdog" % ", ".join(big_shapes())),
           layout_ob("layout-returns-splines", "Harness_E_C01", shapes(4, 4, selfloops=False, connected=True)[::nm(q, 6, 1)], {"P1": [0] if q else [0, 1], "SZ": [0] if q else [0, 5]},
                     consts={"P2": 0, "P4": 4, "P5": 4, "NSFIX": 10, "LSFIX": 20}, validate_cubes=0, enctimeout=60, replay_timeout=20,
                     bounds="BUG HUNTING ONLY (the spline code divides by 3, multiplies by 0.2, normalises: float rounding is not modelled there, so unsat is not a proof): "
                            "%s connected loop-free edge lists N<=4 M<=4 x spline routing, default pipeline, no sizes%s; failures at the three listed call sites are known "
                            "finding G11s" % nm(q, ("every 6th of the", ""), ("all", " / concrete sizes"))),
           layout_ob("layout-returns-bk", "Harness_E_C01", shapes(3, 3) if q else shapes(4, 3), {"BK": [-1, 0, 1, 2, 3], "P2": [0, 1]},
                     consts={"P1": 0, "P4": 2, "P5": 2, "SZ": 5, "NSFIX": 10, "LSFIX": 20}, loop=96,
                     bounds="canonical edge lists x Brandes-Koepf (balanced and forced layouts 0..3) x {NS,LP}; concrete heterogeneous sizes"),
           layout_ob("layout-returns-nspos", "Harness_E_C01", shapes(3, 2) if q else shapes(3, 3), {"P1": [0, 1]},
                     consts={"P2": 0, "P4": 3, "P5": 2, "SZ": 2, "INTSZ": 1, "MAXSZ": 2}, loop=192, enctimeout=nm(q, 100, 400),
                     bounds="canonical edge lists x NetworkSimplex positioner; symbolic integer sizes/spacings in 0..2 (ranks become slice indices)")]
    # cycle breaking on multigraphs beyond M=4 (in-package, the panic "graph is still cyclic" is raised by phase1.Alg.Process)
    obs.append(phase1_multigraph_ob("cycle-breaking-returns-multigraphs-greedy", tier, 0, 1))
    obs.append(phase1_multigraph_ob("cycle-breaking-returns-multigraphs-dfs", tier, 1, 1))
    obs.append(phase1_peel_ob("cycle-breaking-returns-peeling-greedy", 0))
    obs.append(phase1_peel_ob("cycle-breaking-returns-peeling-dfs", 1))
    if not q:
        obs.append(layout_ob("layout-returns-multigraphs", "Harness_E_C01", multi_shapes(4, 4, 7), {"P1": [0, 1]},
                             consts={"P2": 0, "P4": 4, "P5": 2, "SZ": 0, "NSFIX": 10, "LSFIX": 20},
                             bounds="Layout on multigraphs: simple shapes with <= 4 nodes and <= 4 distinct edges, each repeated 1..3 times, <= 7 edges x {greedy,dfs}, default pipeline, no sizes"))
    return dict(obligations=obs)


def C02(tier):
    q = tier == "quick"
    N, M = nm(q, (3, 3), (4, 4))
    sh = shapes(N, M)
    dims = {"P1": [0, 1], "SZ": [0, 1, 2, 3], "VIRT": [0, 1]}
    obs = [layout_ob("layout-same-graph", "Harness_E_C02", sh, dims, consts={"P4": 4, "P5": 2},
                     bounds="all canonical edge lists N<=%d M<=%d x cycle breakers%s x size options {none, fixed, per-node all, fixed+per-node some} x "
                            "virtual-node output; symbolic sizes and spacings" % (N, M, ""))]
    obs.append(unreverse_ob(tier))
    if not q:
        obs.append(layout_ob("layout-same-graph-lp", "Harness_E_C02", shapes(3, 3), {"P1": [0, 1], "SZ": [3], "VIRT": [0, 1], "P4": [1, 5]},
                             consts={"P2": 1, "P5": 3}, bounds="N<=3 M<=3 x longest-path layering x {VAlign,PackRight} x ortho"))
    return dict(obligations=obs)


def unreverse_ob(tier):
    q = tier == "quick"
    grid = [(2, 2), (2, 3), (2, 4), (3, 3)] if q else [(2, 2), (2, 3), (2, 4), (2, 5), (3, 3), (3, 4), (3, 5), (4, 4)]
    cubes = [c for (n, m) in grid for c in phase1_cubes(n, m)]
    return dict(name="unreverse-kernel", pkg="internal/processor/postprocessor", func="Harness_Unreverse", consts={}, cubes=cubes,
                bounds="post-processor kernel: all canonical connected loop-free edge lists with (N,M) in %s; symbolic: which edges are stored reversed "
                       "(2^M subsets chosen by the solver)" % grid, enctimeout=200)


def C03(tier):
    q = tier == "quick"
    N, M = nm(q, (3, 3), (4, 4))
    sh = shapes(N, M)
    obs = [layout_ob("layout-bands-ns", "Harness_E_C03", sh, {"P4": [4, 1, 5], "P1": [0, 1]},
                     consts={"P2": 0, "P5": 1, "SZ": 2, "KNOWN_FLAT": 0},
                     bounds="all canonical edge lists N<=%d M<=%d x {SinkColoring,VAlign,PackRight} x {greedy,dfs} x network-simplex layering; "
                            "symbolic per-node sizes, NodeSpacing>=0, LayerSpacing>=1" % (N, M)),
           layout_ob("layout-bands-lp", "Harness_E_C03", sh, {"P4": [4, 1], "P1": [0, 1]},
                     consts={"P2": 1, "P5": 1, "SZ": 2, "KNOWN_FLAT": 0}, bounds="same shapes x longest-path layering x {SinkColoring,VAlign}")]
    obs.append(layout_ob("layout-bands-colliding-names", "Harness_E_C03", shapes(4, 4, selfloops=False, connected=True), {"IDSET": [1, 2]},
                         consts={"P1": 0, "P2": 0, "P4": 4, "P5": 1, "SZ": 2, "KNOWN_FLAT": 0},
                         bounds="all connected loop-free canonical edge lists N<=4 M<=4 with node names whose concatenations collide (1, 12, 2, 11 / \"\", x, xx, xxx): the "
                                "hierarchy must not depend on how the nodes are called; default pipeline; symbolic sizes"))
    obs.append(ns_pivot_ob(tier))
    obs.append(ns_balance_ob(tier))
    obs += ns_whole_obs(tier, ("feasible",))
    obs.append(ns_tree_obs(tier)[0])
    return dict(obligations=obs)


def C04(tier):
    q = tier == "quick"
    N, M = nm(q, (3, 3), (4, 4))
    sh = shapes(N, M)
    obs = [layout_ob("layout-no-overlap", "Harness_E_C04", sh, {"P4": [4, 1, 5], "P1": [0, 1], "P2": [0, 1]},
                     consts={"P5": 0, "SZ": 2},
                     bounds="all canonical edge lists N<=%d M<=%d x {SinkColoring,VAlign,PackRight} x {greedy,dfs} x {NS,LP}; %s" % (N, M, SYMB)),
           layered_ob(tier, [4, 1, 5]),
           *ns_tree_obs(tier),
           layout_ob("layout-no-overlap-sinkcoloring-5", "Harness_E_C04", edge_lists(5, 4, selfloops=False, connected=True)[::nm(q, 4, 1)], {"P1": [0]},
                     consts={"P2": 0, "P4": 4, "P5": 0, "SZ": 4, "LSFIX": 1},
                     bounds="%s canonical connected trees/forests with N=5 M=4 (every edge order) x SinkColoring (default pipeline); symbolic widths, NodeSpacing" % nm(q, "every 4th of the", "all")),
           layout_ob("layout-no-overlap-sinkcoloring-6", "Harness_E_C04", edge_lists(6, 5, selfloops=False, connected=True)[::nm(q, 12, 1)], {"P1": [1]},
                     consts={"P2": 0, "P4": 4, "P5": 0, "SZ": 2}, depth=40,
                     bounds="%s canonical trees with N=6 M=5 (every orientation and edge order) x SinkColoring; symbolic W,H, spacings" % nm(q, "every 12th of the 6912", "all 6912")),
           layout_ob("layout-no-overlap-nspos", "Harness_E_C04", shapes(3, 2) if q else shapes(3, 3), {"P1": [0, 1]},
                     consts={"P2": 0, "P4": 3, "P5": 0, "SZ": 2, "INTSZ": 1, "MAXSZ": 2}, loop=192, enctimeout=nm(q, 100, 400),
                     bounds="canonical edge lists x NetworkSimplex positioner; symbolic integer W,H,spacings in 0..2"),
           layout_ob("layout-no-overlap-nspos-concrete", "Harness_E_C04", shapes(3, 3) + shapes(4, 4, selfloops=False, connected=True)[::4] if q else shapes(4, 4), {"P1": [0, 1]},
                     consts={"P2": 0, "P4": 3, "P5": 0, "SZ": 5, "INTSZ": 1, "NSFIX": 10, "LSFIX": 20}, loop=192,
                     bounds="canonical edge lists x NetworkSimplex positioner; concrete heterogeneous sizes 10..22 x 8..12, spacing 10/20")]
    return dict(obligations=obs)


def C05(tier):
    q = tier == "quick"
    N, M = nm(q, (3, 3), (4, 4))
    sh = shapes(N, M)
    obs = [layout_ob("layout-edge-anchors", "Harness_E_C05", sh, {"P5": [1, 2, 3], "P4": [4, 1, 5], "P1": [0, 1]},
                     consts={"P2": 0, "SZ": 2},
                     bounds="all canonical edge lists N<=%d M<=%d x {straight,polyline,ortho} x {SinkColoring,VAlign,PackRight} x {greedy,dfs}; %s (LayerSpacing>=1)" % (N, M, SYMB))]
    obs.append(unreverse_ob(tier))
    if not q:
        obs.append(layout_ob("layout-edge-anchors-lp", "Harness_E_C05", shapes(3, 3), {"P5": [1, 2, 3], "P1": [0, 1]},
                             consts={"P2": 1, "P4": 4, "SZ": 2}, bounds="N<=3 M<=3 x longest-path layering"))
    return dict(obligations=obs)


def C06(tier):
    q = tier == "quick"
    N, M = nm(q, (3, 3), (4, 4))
    sh = shapes(N, M)
    obs = [layout_ob("layout-route-geometry", "Harness_E_C06", sh, {"P5": [1, 2, 3], "P4": [4, 1, 5], "VIRT": [0, 1]},
                     consts={"P1": 1, "P2": 0, "SZ": 2, "KNOWN_ORTHO": 0},
                     bounds="all canonical edge lists N<=%d M<=%d x {straight,polyline,ortho} x {SinkColoring,VAlign,PackRight} x virtual-node output; %s" % (N, M, SYMB))]
    multi = [s for s in (shapes(5, 4) if q else shapes(6, 5, selfloops=False)) if not is_connected(s, 1 + max(max(e) for e in s)) and has_long_edge_candidate(s)]
    obs.append(layout_ob("layout-route-geometry-components", "Harness_E_C06", multi, {"P4": [4, 1]},
                         consts={"P1": 1, "P2": 0, "P5": 2, "SZ": 2, "VIRT": 1, "KNOWN_ORTHO": 0},
                         bounds="edge lists with >= 2 components of which one contains a transitive triangle (long edge) N<=%d M<=%d, polyline, helper nodes in the output" % nm(q, (5, 4), (6, 5))))
    return dict(obligations=obs)


def C07(tier):
    q = tier == "quick"
    sh = shapes(4, 2) + [s for s in shapes(3, 3) if s not in shapes(4, 2)] if q else shapes(4, 4)
    obs = [layout_ob("layout-deterministic", "Harness_E_C07", sh, {"P1": [0, 1], "P2": [0, 1], "P4": [4, 1], "VIRT": [0, 1]},
                     consts={"P5": 2, "SZ": 2},
                     bounds="canonical edge lists (%s) x {greedy,dfs} x {NS,LP} x {SinkColoring,VAlign}, polyline; two calls, every `range` over a map "
                            "visits its keys in an independent solver-chosen order in each call; input slices/maps compared before/after" % nm(q, "N<=4 M<=2 and N<=3 M<=3", "N<=4 M<=4"),
                     enctimeout=90, maporder="symbolic")]
    obs.append(layout_ob("layout-two-size-maps", "Harness_E_C07", shapes(3, 2) if q else shapes(3, 3), {"P4": [4, 1]}, consts={"P1": 0, "P2": 0, "P5": 2, "SZ": 6},
                         bounds="canonical edge lists %s x {SinkColoring,VAlign}; history of four calls: first size map alone, twice with two WithNodeSize options "
                                "(symbolic sizes), first map alone again; results of equal calls identical, both caller maps unmodified" % nm(q, "N<=3 M<=2", "N<=3 M<=3")))
    if not q:
        obs.append(layout_ob("layout-deterministic-more", "Harness_E_C07", shapes(3, 3), {"P4": [5, 2, 3], "P5": [1, 3]},
                             consts={"P1": 0, "P2": 0, "SZ": 5, "INTSZ": 1, "NSFIX": 10, "LSFIX": 20}, loop=192, enctimeout=200, maporder="symbolic",
                             bounds="N<=3 M<=3 x {PackRight,B&K,NS positioner} x {straight,ortho}, concrete sizes, symbolic map orders"))
    return dict(obligations=obs)


def C08(tier):
    q = tier == "quick"
    sh = [[(0, 1)], [(0, 1), (0, 2)], [(0, 1), (1, 2), (0, 2)], [(0, 1), (1, 0)], [(0, 0), (0, 1)], [(0, 1), (1, 2), (2, 0)]] if q else shapes(3, 3) + [
        [(0, 1), (1, 2), (2, 3), (3, 0)], [(0, 1), (1, 2), (2, 0), (2, 3)], [(0, 1), (1, 2), (2, 3), (3, 1)]]
    small = [[(0, 1)], [(0, 1), (0, 2)], [(0, 1), (1, 0)], [(0, 0), (0, 1)]] if q else shapes(3, 2)
    A = ("symbolic: an injective renaming chosen by the solver from the alphabet {a,V1,V2,V3,NE0..NE3,'',non-ASCII,n0,n1}; concrete heterogeneous sizes; "
         "both runs must agree in their results and in whether they panic")
    obs = [layout_ob("layout-rename", "Harness_E_C08", sh, {"P4": [4]}, consts={"P1": 0, "P2": 0, "P5": 2, "SZ": 5, "INTSZ": 1, "NSFIX": 10, "LSFIX": 20},
                     bounds="%s x SinkColoring (default pipeline); %s" % (nm(q, "6 shapes (edge, fork, long edge, 2-cycle, self-loop, 3-cycle)", "all canonical edge lists N<=3 M<=3 + three 4-node cyclic shapes"), A),
                     enctimeout=240, qtimeout=120),
           layout_ob("layout-rename-nspos", "Harness_E_C08", small, {"P4": [3]}, consts={"P1": 0, "P2": 0, "P5": 2, "SZ": 5, "INTSZ": 1, "NSFIX": 10, "LSFIX": 20},
                     bounds="%s x NetworkSimplex positioner; %s" % (nm(q, "4 shapes with <= 2 edges", "all canonical edge lists N<=3 M<=2"), A), enctimeout=240, qtimeout=120, loop=192)]
    cyc = shapes(4, 4, selfloops=False, connected=True, acyclic=False)
    fixed = shapes(3, 3) + (cyc[::4] if q else cyc)
    obs.append(layout_ob("layout-rename-fixed", "Harness_E_C08", fixed, {"REN": [1, 2] if q else [1, 2, 3], "P1": [0] if q else [0, 1], "P4": [4] if q else [4, 1]},
                         consts={"P2": 0, "P5": 2, "SZ": 2},
                         bounds="%s x three FIXED renamings (reverse order of the same names, helper-node names V3,V2,V1,NE3.. in descending order, rotation) - enumerated, not "
                                "solver-chosen: concrete names keep name comparisons concrete on shapes where a symbolic name exhausts the encoding budget; %s"
                                % (nm(q, "all canonical edge lists N<=3 M<=3 + every 4th cyclic connected list N<=4 M<=4", "all canonical edge lists N<=3 M<=3 + all cyclic connected lists N<=4 M<=4 x {greedy,dfs} x {SinkColoring,VAlign}"), SYMB)))
    col = shapes(4, 4, selfloops=False, connected=True)
    obs.append(layout_ob("layout-rename-colliding-names", "Harness_E_C08", col if q else col + shapes(5, 4, selfloops=False, connected=True)[len(col):], {"REN": [4, 5]},
                         consts={"P1": 0, "P2": 0, "P4": 4, "P5": 2, "SZ": 2},
                         bounds="all connected loop-free canonical edge lists %s x two FIXED renamings whose concatenations collide (\"\", x, xx, xxx.. - every concatenation "
                                "commutes, the empty name is invisible; 1, 12, 2, 11.. - \"1\"+\"12\" == \"11\"+\"2\"): any key, hash or cache built from "
                                "concatenated IDs without a separator; default pipeline; %s" % (nm(q, "N<=4 M<=4", "N<=5 M<=4"), SYMB)))
    return dict(obligations=obs)


def dags_one_order(n, with_long_edge=True):
    """every connected DAG on exactly n nodes (edges i<j of a topological numbering), ONE edge order per DAG (lexicographic), renumbered canonically
    (first-occurrence order); with_long_edge: only DAGs in which some edge is a shortcut of a longer directed path (they get helper nodes)"""
    import itertools
    pairs = [(i, j) for i in range(n) for j in range(i + 1, n)]
    out, seen = [], set()
    for k in range(n - 1, len(pairs) + 1):
        for sub in itertools.combinations(pairs, k):
            if len({v for e in sub for v in e}) != n or not is_connected(list(sub), n):
                continue
            if with_long_edge:
                reach = {(a, b) for a, b in sub}
                ch = True
                while ch:
                    ch = False
                    for (a, b) in list(reach):
                        for (c, d) in sub:
                            if b == c and (a, d) not in reach:
                                reach.add((a, d)); ch = True
                # an edge (a,b) is long if some c has a->..->c->..->b
                if not any((a, c) in reach and (c, b) in reach for (a, b) in sub for c in range(n)):
                    continue
            ren, el = {}, []
            for a, b in sub:
                for v in (a, b):
                    if v not in ren:
                        ren[v] = len(ren)
                el.append((ren[a], ren[b]))
            t = tuple(el)
            if t not in seen:
                seen.add(t); out.append(el)
    return out


def C09(tier):
    q = tier == "quick"
    N, M = nm(q, (4, 3), (5, 4))
    multi = [s for s in shapes(N, M) if not is_connected(s, 1 + max(max(e) for e in s))]
    dims = {"P4": [4, 1, 5], "P1": [0, 1], "P2": [0, 1]}
    obs = [layout_ob("layout-components", "Harness_E_C09", multi, dims, consts={"P5": 2, "SZ": 2},
                     bounds="all canonical edge lists with >= 2 components (N<=%d, M<=%d; interleaved edge orders, self-looped singletons) x 3 positioners x "
                            "2 breakers x 2 layerers; %s" % (N, M, SYMB))]
    big = [d + [(5, 6)] for d in dags_one_order(5) if len(d) <= nm(q, 6, 7)]
    obs.append(layout_ob("layout-components-helper-nodes", "Harness_E_C09", big, {"P4": [4, 1]}, consts={"P1": 0, "P2": 0, "P5": 2, "SZ": 2},
                         bounds="first component: every connected 5-node DAG with a long edge (helper nodes) and <= %d edges, one edge order per DAG; second component: one edge; "
                                "x {SinkColoring,VAlign}, default breaker and layerer; %s" % (nm(q, 6, 7), SYMB)))
    return dict(obligations=obs)


def dag_cubes(grid):
    out = []
    for (n, m) in grid:
        for c in phase1_cubes(n, m):
            el = [(c["ef[%d]" % i], c["et[%d]" % i]) for i in range(m)]
            if __import__("vlib.driver").driver.is_acyclic(el, n):
                out.append(c)
    return out


def ns_pivot_ob(tier):
    q = tier == "quick"
    grid = [(3, 3), (4, 4), (4, 5)] if q else [(3, 3), (4, 4), (4, 5), (5, 4), (5, 5)]
    cubes = [dict(c, SYMDELTA=sd) for c in dag_cubes(grid) for sd in (0, 1) if sd == 0 or (c["N"], c["M"]) in ([(3, 3)] if q else [(3, 3), (4, 4)])]
    if not q:
        cubes = [c for i, c in enumerate(cubes) if (c["N"], c["M"]) != (5, 5) or i % 8 == 0]
    return dict(name="ns-pivot-lemma", pkg="internal/phase2", func="Harness_NS_Pivot", consts={}, cubes=cubes, enctimeout=300, qtimeout=120,
                bounds="one network-simplex pivot from an ARBITRARY feasible tight spanning tree: all canonical connected DAGs with (N,M) in %s (parallel edges "
                       "included) as cubes; symbolic: the layering (0..2N per node) and the set of tree edges, assumed only to satisfy the invariant; for (N,M)=(3,3) [thorough: also (4,4)] additionally "
                       "with symbolic minimum lengths Delta in 0..3 and weights in 0..2 per edge (as the NetworkSimplex positioner uses the same code)%s" % (grid, "" if q else "; every 8th cube of the (5,5) class"))


def ns_whole_obs(tier, which):
    q = tier == "quick"
    grid = [(3, 3), (4, 4)] if q else [(3, 3), (4, 4), (5, 4), "every 2nd of (4, 5)"]
    whole = dag_cubes([(3, 3), (4, 4)]) if q else dag_cubes([(3, 3), (4, 4), (5, 4)]) + dag_cubes([(4, 5)])[::2]
    out = []
    if "feasible" in which:
        out.append(dict(name="ns-whole-feasible", pkg="internal/phase2", func="Harness_NS_Feasible", consts={}, cubes=whole, enctimeout=90, qtimeout=60, loop=64, chunk=150,
                        bounds="whole real execNetworkSimplex (feasible tree, pivots, normalize, vbalance) on all canonical connected DAGs with (N,M) in %s (cubes); symbolic: the "
                               "minimum length of every edge in 0..2 (stands in for the slacks of larger graphs; the NS positioner runs the same code with arbitrary lengths)" % grid))
    if "optimal" in which:
        out.append(dict(name="ns-whole-optimal", pkg="internal/phase2", func="Harness_NS_Optimal", consts={"SYMW": 0}, cubes=whole, enctimeout=90, qtimeout=60, loop=64, chunk=150,
                        validate_cubes=0,
                        bounds="whole real execNetworkSimplex without balancing, iteration budget beyond the engine's loop bound (capped runs are cut, not judged), same cubes; "
                               "symbolic: minimum lengths 0..2 and an arbitrary alternative layering alt[] - the solver searches for a cheaper feasible one"))
    if "optimal" in which:
        k4 = [c for c in dag_cubes([(4, 6)]) if len({(c["ef[%d]" % i], c["et[%d]" % i]) for i in range(6)}) == 6]
        out.append(dict(name="ns-whole-optimal-k4-weighted", pkg="internal/phase2", func="Harness_NS_Optimal", consts={"SYMW": 1}, cubes=k4[::12] if q else k4[::4],
                        enctimeout=240, qtimeout=90, loop=64, chunk=24, validate_cubes=0,
                        bounds="whole real execNetworkSimplex on the complete 4-node DAG (6 edges) in %s of its 720 edge orders; symbolic: minimum lengths 0..2, WEIGHTS 1..2 per edge "
                               "(a weight-2 edge stands for a pair of parallel edges; the NetworkSimplex positioner runs the same code with weights) and the alternative layering alt[]"
                               % ("every 12th" if q else "every 4th")))
    return out


def ns_tree_obs(tier):
    q = tier == "quick"
    grid = [(3, 3), (4, 4)] if q else [(3, 3), (4, 4), (4, 5)]
    return [dict(name="ns-feasible-tree-lemma", pkg="internal/phase2", func="Harness_NS_FeasibleTree", consts={}, cubes=dag_cubes(grid), enctimeout=120, qtimeout=60,
                 bounds="real feasibleTree (initLayers + tight-tree growth) on all canonical connected DAGs with (N,M) in %s; symbolic: minimum lengths 0..3 per edge; "
                        "result: feasible layering, exactly N-1 tight tree edges forming a spanning tree" % grid),
            dict(name="ns-hbalance-lemma", pkg="internal/phase2", func="Harness_NS_HBalance", consts={}, cubes=dag_cubes([(3, 3), (4, 4)]), enctimeout=120, qtimeout=60, validate_cubes=0,
                 bounds="hbalance (the NetworkSimplex positioner's balancing) from an arbitrary feasible tight spanning tree: DAGs (3,3),(4,4); symbolic layering, tree, "
                        "minimum lengths 0..3, weights 0..2")]


def ns_balance_ob(tier):
    q = tier == "quick"
    grid = [(3, 3), (4, 4)] if q else [(3, 3), (4, 4), (4, 5), (5, 4)]
    return dict(name="ns-balance-lemma", pkg="internal/phase2", func="Harness_NS_Balance", consts={}, cubes=dag_cubes(grid), enctimeout=300, qtimeout=120,
                bounds="normalize + vbalance from an ARBITRARY feasible layering: all canonical connected DAGs with (N,M) in %s as cubes; symbolic: the layer of every "
                       "node in -3..2N, assumed feasible" % grid)


def C10(tier):
    q = tier == "quick"
    N, M = nm(q, (4, 4), (5, 5))
    sh = shapes(N, M, selfloops=False, connected=True)
    obs = [layout_ob("layout-ns-optimal", "Harness_E_C10", sh, {"P1": [0, 1]},
                     consts={"P2": 0, "P4": 1, "P5": 0, "SZ": 0, "LSFIX": 1, "NSFIX": 1},
                     bounds="all canonical connected loop-free edge lists N<=%d M<=%d x {greedy,dfs}; symbolic: an arbitrary alternative layering alt[i] in 0..15 "
                            "(the solver searches for a cheaper feasible layering of the drawn orientation)" % (N, M))]
    obs.append(ns_pivot_ob(tier))
    obs.append(ns_balance_ob(tier))
    obs += ns_whole_obs(tier, ("feasible", "optimal"))
    if not q:
        # (5,5) with the default (greedy) breaker only: halves the largest class
        def n_of(c):
            return 1 + max(max(c["ef[%d]" % i], c["et[%d]" % i]) for i in range(c["M"]))
        obs[0]["cubes"] = [c for c in obs[0]["cubes"] if not (c["P1"] == 1 and c["M"] == 5 and n_of(c) == 5)]
        obs[0]["bounds"] += "; the N=5 M=5 class with the greedy breaker only"
        multi = [s for s in shapes(5, 4, selfloops=True) if not is_connected(s, 1 + max(max(e) for e in s))]
        obs.append(layout_ob("layout-ns-optimal-components", "Harness_E_C10", multi, {"P1": [0]},
                             consts={"P2": 0, "P4": 1, "P5": 0, "SZ": 0, "LSFIX": 1, "NSFIX": 1}, bounds="edge lists with >= 2 components and self-loops N<=5 M<=4"))
    return dict(obligations=obs)


def lp_kernel_ob(tier):
    q = tier == "quick"
    grid = [(2, 1), (2, 2), (3, 2), (3, 3), (4, 3), (4, 4)] if q else [(2, 1), (2, 2), (3, 2), (3, 3), (4, 3), (4, 4), (4, 5), (5, 4), (5, 5)]
    return dict(name="longest-path-kernel", pkg="internal/phase2", func="Harness_LP", consts={}, cubes=dag_cubes(grid), enctimeout=120, qtimeout=60,
                bounds="real LongestPath.Process on all canonical connected DAGs with (N,M) in %s (cubes); symbolic: the IsReversed flag of every edge "
                       "(any edge may be a reversed one after cycle breaking)" % grid)


def deep_dags(maxn):
    """structured deep DAGs (edge lists): chains, chains written tail-first, combs (a leaf under every 3rd spine node), chains with shortcut edges --
    graphs whose recursion / work-list depth passes the slice-capacity boundaries 8, 16, 32 that small enumerated shapes never reach"""
    out = []
    for n in range(7, maxn + 1):
        chain = [(i, i + 1) for i in range(n - 1)]
        out.append((n, chain))
        out.append((n, chain[::-1]))
        if n % 3 == 0:
            spine = n - n // 3
            comb = [(i, i + 1) for i in range(spine - 1)] + [(3 * k, spine + k) for k in range(n - spine) if 3 * k < spine]
            out.append((spine + len([k for k in range(n - spine) if 3 * k < spine]), comb))
            out.append((n, chain + [(i, i + 3) for i in range(0, n - 3, 4)]))
    return out


def lp_deep_ob(tier):
    q = tier == "quick"
    maxn = 20 if q else 40
    cubes = []
    for n, el in deep_dags(maxn):
        c = {"N": n, "M": len(el)}
        for i, (f, t) in enumerate(el):
            c["ef[%d]" % i], c["et[%d]" % i] = f, t
        cubes.append(c)
    return dict(name="longest-path-kernel-deep", pkg="internal/phase2", func="Harness_LP", consts={}, cubes=cubes, enctimeout=200, qtimeout=60, loop=256, depth=64, validate_cubes=2,
                bounds="real LongestPath.Process on deep structured DAGs with 7..%d nodes (chains in both edge orders, combs, chains with shortcut edges: "
                       "depth passes the slice-capacity boundaries 8, 16%s); symbolic IsReversed flags" % (maxn, "" if q else ", 32"))


def C11(tier):
    q = tier == "quick"
    sh = shapes(5, 3) + shapes(3, 4) if q else shapes(5, 4, selfloops=False) + shapes(4, 4) + shapes(6, 4, selfloops=False) + edge_lists(4, 5, connected=True)
    obs = [layout_ob("layout-lp-min-layers", "Harness_E_C11", sh, {"P1": [0, 1]},
                     consts={"P2": 1, "P4": 1, "P5": 0, "SZ": 0, "LSFIX": 1, "NSFIX": 1},
                     bounds="canonical edge lists (%s) x {greedy,dfs} x longest-path layering" % nm(q, "N<=5 M<=3 and N<=3 M<=4", "N<=5 M<=4 loop-free, N<=4 M<=4 with self-loops, N<=6 M<=4 loop-free, connected loop-free N=4 M=5")),
           lp_kernel_ob(tier), lp_deep_ob(tier)]
    return dict(obligations=obs)


def C12(tier):
    q = tier == "quick"
    N, M = nm(q, (4, 4), (5, 5))
    sh = shapes(N, M, selfloops=False, connected=True, simple=True)
    obs = [layout_ob("layout-crossings", "Harness_E_C12", sh, {"P4": [4, 1, 5], "P2": [0, 1]},
                     consts={"P1": 1, "P5": 2, "SZ": 4, "LSFIX": 1, "MINNS": 1},
                     bounds="all canonical connected simple edge lists N<=%d M<=%d x {SinkColoring,VAlign,PackRight} x {NS,LP}, polyline; symbolic widths in [0,64], "
                            "NodeSpacing in [1,64] (zero heights so that route points lie on the bands)" % (N, M)),
           crossing_kernel_ob(tier),
           wmedian_kernel_ob(tier),
           wmedian_dag_ob(tier),
           layout_ob("layout-crossings-70-layers", "Harness_E_C12", many_layer_shapes(), {"P2": [0, 1], "P4": [4, 1]},
                     consts={"P1": 1, "P5": 2, "SZ": 0, "NSFIX": 10, "LSFIX": 1}, loop=8192, depth=300, enctimeout=200, validate_cubes=1,
                     bounds="two graphs with 70 layers (two parallel 70-node paths, a crossing edge pair at layers 65/66 or 66/67, a third node in one layer): the "
                            "property's 'more than 64 layers' clause; no sizes")]
    return dict(obligations=obs)


def crossing_kernel_ob(tier):
    import itertools
    q = tier == "quick"
    cubes = []

    def edge_sets(n1, n2, m):
        return list(itertools.combinations([(i, j) for i in range(n1) for j in range(n2)], m))
    sizes = [(2, 2, 2), (3, 2, 2), (2, 3, 2), (3, 3, 2)] if q else [(2, 2, 2), (3, 2, 2), (2, 3, 2), (3, 3, 2), (3, 3, 3), (4, 3, 2), (3, 4, 2)]
    for (na, nb, nc) in sizes:
        for m1 in ((2, 3) if q else (2, 3, 4)):
            abs_ = edge_sets(na, nb, m1)
            bcs = edge_sets(nb, nc, 2)
            for ab in abs_[::max(1, len(abs_) // (12 if q else 40))]:
                for bc in bcs[::max(1, len(bcs) // 3)]:
                    c = {"NA": na, "NB": nb, "NC": nc, "MAB": m1, "MBC": 2, "PANICS": 1}
                    for i, (f, t) in enumerate(ab):
                        c["abf[%d]" % i], c["abt[%d]" % i] = f, t
                    for i, (f, t) in enumerate(bc):
                        c["bcf[%d]" % i], c["bct[%d]" % i] = f, t
                    cubes.append(c)
    return dict(name="crossing-counter-kernel", pkg="internal/phase3", func="Harness_CountCrossings", consts={}, cubes=cubes, enctimeout=200, qtimeout=100,
                bounds="real countCrossings vs naive pair count on three consecutive layers of up to %s nodes with simple edge sets (cubes); symbolic: the in-layer order of "
                       "every layer (solver-chosen permutation) and the index of the first layer in 0..100 (the counter filters edges by layer index); panic sites included" % nm(q, "3/3/2", "4/4/3"))


def wmedian_kernel_ob(tier):
    cubes = []
    base = layered_cubes("thorough")
    if tier == "quick":
        base = base[::5]
    for c in base:
        if any(v == 1 for k, v in c.items() if k.startswith("virt")):
            continue
        n = sum(v for k, v in c.items() if k.startswith("k["))
        for rot in range(0, n, 2 if tier == "quick" else 1):
            d = {k: v for k, v in c.items() if not k.startswith("virt") and k != "PANICS"}
            d["ROT"] = rot
            cubes.append(d)
    return dict(name="wmedian-kernel", pkg="internal/phase3", func="Harness_P3_Layered", consts={}, cubes=cubes, enctimeout=200, qtimeout=60, loop=256, validate_cubes=4,
                bounds="real execWeightedMedian on arbitrary layered graphs (2-4 layers of 1-3 nodes, sampled edge sets, node-list rotations) as cubes; no symbolic dimension: "
                       "the engine is used as an exhaustive executor of the real code here (queries are decided by the simplifier)")


def dag_layered_cubes(n, m, step):
    """layered form (longest-path layering from the sources, long edges split by helper nodes) of every step-th connected DAG on n nodes with m edges
    (edges i<j of a topological numbering): layers of up to n nodes, the layered graphs Layout hands to phase 3 for n-node inputs"""
    import itertools
    pairs = [(i, j) for i in range(n) for j in range(i + 1, n)]
    out = []
    for sub in list(itertools.combinations(pairs, m))[::step]:
        if len({v for e in sub for v in e}) != n or not is_connected(list(sub), n):
            continue
        lay = [0] * n
        for i in range(n):
            for (a, b) in sub:
                if b == i:
                    lay[i] = max(lay[i], lay[a] + 1)
        L = max(lay) + 1
        if L > 4:
            continue
        layers = [[] for _ in range(L)]
        for v in range(n):
            layers[lay[v]].append(("n", v))
        edges = []
        for k, (a, b) in enumerate(sub):
            prev = ("n", a)
            for l in range(lay[a] + 1, lay[b]):
                h = ("h", k, l)
                layers[l].append(h)
                edges.append((l - 1, prev, h))
                prev = h
            edges.append((lay[b] - 1, prev, ("n", b)))
        if max(len(x) for x in layers) > 6:
            continue
        c = {"L": L, "M": len(edges)}
        for l, ns in enumerate(layers):
            c["k[%d]" % l] = len(ns)
        for j, (l, a, b) in enumerate(edges):
            c["el[%d]" % j], c["ea[%d]" % j], c["eb[%d]" % j] = l, layers[l].index(a), layers[l + 1].index(b)
        out.append(c)
    return out


def wmedian_dag_ob(tier):
    q = tier == "quick"
    cubes = [dict(c, ROT=r) for c in dag_layered_cubes(6, 9, 5 if q else 2) for r in (0, 1)]
    return dict(name="wmedian-kernel-six-node-dags", pkg="internal/phase3", func="Harness_P3_Layered", consts={}, cubes=cubes, enctimeout=200, qtimeout=60, loop=512, validate_cubes=4,
                bounds="real execWeightedMedian on the layered form (helper nodes for long edges, <= 4 layers of <= 6 nodes) of %s connected 6-node DAG with 9 edges x %d rotations "
                       "of the initial node list; no symbolic dimension (exhaustive execution, queries decided by the simplifier)" % (nm(q, "every 5th", "every 2nd"), 2))


def many_layer_shapes():
    b = big_shapes()
    return [b["two-paths-70-layers-a"], b["two-paths-70-layers-b"]]


def C13(tier):
    q = tier == "quick"
    n = 5 if q else 6
    sh = trees(n, True) + trees(n, False)
    obs = [layout_ob("layout-trees-planar", "Harness_E_C13", sh, {"P4": [4, 1, 5]},
                     consts={"P1": 0, "P2": 0, "P5": 2, "SZ": 4, "LSFIX": 1, "MINNS": 1},
                     bounds="all out-trees and in-trees with <= %d nodes in every edge order x {SinkColoring,VAlign,PackRight}; symbolic widths, NodeSpacing>=1" % n)]
    obs.append(wmedian_kernel_ob(tier))
    if not q:
        t7 = [t for t in trees(7, True) if len(t) == 6]
        obs.append(layout_ob("layout-trees-planar-7", "Harness_E_C13", t7, {"P4": [4]},
                             consts={"P1": 0, "P2": 0, "P5": 2, "SZ": 4, "LSFIX": 1, "MINNS": 1},
                             bounds="all out-trees with exactly 7 nodes in every edge order x SinkColoring (default pipeline); symbolic widths, NodeSpacing>=1"))
    return dict(obligations=obs)


def C14(tier):
    q = tier == "quick"
    obs = []
    base = {"PANICS": 0, "RANDOM": 0, "KNOWN_G1": 0}
    sym = [(2, 2)] if q else [(2, 2), (2, 3)]
    for alg, an in ((1, "dfs"), (0, "greedy")):
        cubes = [dict(c) for (n, m) in sym for c in phase1_cubes(n, m, fixed=0)]
        obs.append(dict(name="phase1-%s-symbolic" % an, pkg="internal/phase1", func="Harness_Phase1", consts=dict(base, ALG=alg),
                        cubes=cubes, bounds="edge endpoints fully symbolic (the solver picks the edge list), (N,M) in %s; symbolic map orders" % sym,
                        enctimeout=400, qtimeout=200, maporder="symbolic"))
    # one symbolic tail edge on top of every concretised prefix
    tail = [(2, 3), (3, 3)] if q else [(2, 3), (2, 4), (3, 3), (3, 4)]
    for alg, an in ((1, "dfs"), (0, "greedy")):
        cubes = [c for (n, m) in tail for c in phase1_cubes(n, m, fixed=m - 1)]
        obs.append(dict(name="phase1-%s-symbolic-tail" % an, pkg="internal/phase1", func="Harness_Phase1", consts=dict(base, ALG=alg),
                        cubes=cubes, bounds="every canonical prefix of M-1 edges as a cube, last edge symbolic, (N,M) in %s" % tail,
                        enctimeout=300, qtimeout=120, maporder="symbolic"))
    grid = [(2, 2), (2, 3), (3, 2), (3, 3), (3, 4), (4, 3), (4, 4), (5, 5)] if q else [(2, 2), (2, 3), (2, 4), (2, 5), (3, 2), (3, 3), (3, 4), (3, 5), (4, 3), (4, 4), (4, 5), (5, 4), (5, 5)]
    for alg, an in ((1, "dfs"), (0, "greedy")):
        cubes = [c for (n, m) in grid for c in phase1_cubes(n, m)]
        obs.append(dict(name="phase1-%s-cubes" % an, pkg="internal/phase1", func="Harness_Phase1", consts=dict(base, ALG=alg),
                        cubes=cubes, maporder="symbolic",
                        bounds="all canonical connected loop-free edge lists with (N,M) in %s as cubes; symbolic: map iteration orders" % grid))
    obs.append(phase1_multigraph_ob("phase1-dfs-multigraphs", tier, 1, 0))
    obs.append(phase1_multigraph_ob("phase1-greedy-multigraphs", tier, 0, 0))
    return dict(obligations=obs)


def layered_cubes(tier):
    """proper layered ordered graphs: node counts per layer, edges between adjacent layers (every node has an incident edge),
    middle nodes with exactly one in- and one out-edge optionally flagged as helper nodes"""
    import itertools
    q = tier == "quick"
    out = []
    size_sets = [(1, 2), (2, 2), (2, 3), (3, 2), (1, 2, 2), (2, 2, 2), (2, 1, 2), (2, 3, 2), (3, 2, 3), (2, 2, 3), (1, 3, 1)] if q else [
        t for L in (2, 3) for t in itertools.product((1, 2, 3), repeat=L)] + [(2, 2, 2, 2), (1, 2, 2, 1), (2, 3, 3, 2)]
    for ks in size_sets:
        pairs = [(l, a, b) for l in range(len(ks) - 1) for a in range(ks[l]) for b in range(ks[l + 1])]
        lo, hi = max(ks) if len(ks) == 2 else sum(ks) // 2 + 1, min(len(pairs), sum(ks) + (0 if q else 1))
        for m in range(lo, hi + 1):
            combos = list(itertools.combinations(pairs, m))
            step = max(1, len(combos) // (10 if q else 60))
            for es in combos[::step]:
                deg_in = {}
                deg_out = {}
                for (l, a, b) in es:
                    deg_out[(l, a)] = deg_out.get((l, a), 0) + 1
                    deg_in[(l + 1, b)] = deg_in.get((l + 1, b), 0) + 1
                if any(deg_in.get((l, i), 0) + deg_out.get((l, i), 0) == 0 for l in range(len(ks)) for i in range(ks[l])):
                    continue
                vcand = [(l, i) for l in range(1, len(ks) - 1) for i in range(ks[l]) if deg_in.get((l, i), 0) == 1 and deg_out.get((l, i), 0) == 1]
                for virt in ([False, True] if vcand else [False]):
                    c = {"L": len(ks), "M": m, "PANICS": 1}
                    for l, k in enumerate(ks):
                        c["k[%d]" % l] = k
                        for i in range(k):
                            c["virt[%d]" % (l * 8 + i)] = 1 if (virt and (l, i) in vcand) else 0
                    for j, (l, a, b) in enumerate(es):
                        c["el[%d]" % j], c["ea[%d]" % j], c["eb[%d]" % j] = l, a, b
                    out.append(c)
    return out


def layered_ob(tier, algs, name="positioner-on-layered-graphs"):
    cubes = [dict(c, P4=a) for c in layered_cubes(tier) for a in algs]
    return dict(name=name, pkg="internal/phase4", func="Harness_P4_Layered", consts={}, cubes=cubes, enctimeout=200, qtimeout=100, depth=40,
                bounds="positioner kernel (Alg.Process = positioner + assignYCoords) on ARBITRARY proper layered ordered graphs (the documented precondition of phase 4): "
                       "2-4 layers of 1-3 nodes, sampled edge sets between adjacent layers, helper-node flags (cubes) x algorithms %s; symbolic: W,H of every real node, "
                       "NodeSpacing, LayerSpacing in [0,64]; panic sites and the placeBlock recursion budget included" % algs)


def C16(tier):
    q = tier == "quick"
    N, M = nm(q, (4, 3), (4, 4))
    sh = shapes(N, M, connected=True) + (shapes(3, 4, connected=True) if q else shapes(5, 4, connected=True, selfloops=False))
    obs = [layout_ob("layout-valign-packright", "Harness_E_C16", sh, {"P4": [1, 5], "P1": [0, 1], "P3": [1, 0]},
                     consts={"P2": 0, "P5": 2, "SZ": 2, "VIRT": 1},
                     bounds="all canonical connected edge lists (%s) x {VAlign,PackRight} x {greedy,dfs} x {weighted-median ordering, no ordering}, helper nodes in the output; %s (LayerSpacing>=1)" % (
                         nm(q, "N<=4 M<=3, N<=3 M<=4", "N<=4 M<=4, N<=5 M<=4 loop-free"), SYMB)),
           layered_ob(tier, [1, 5], name="valign-packright-on-layered-graphs")]
    return dict(obligations=obs)


def C17(tier):
    q = tier == "quick"
    sh = shapes(3, 3)
    ks = [-1, 1] if q else [-3, -2, -1, 1, 2, 3, 4, 5, 6]
    obs = [layout_ob("layout-scale", "Harness_E_C17", sh, {"P4": [4, 1, 5], "P5": [1, 2, 3], "K": ks},
                     consts={"P1": 0, "P2": 0, "SZ": 2},
                     bounds="all canonical edge lists N<=3 M<=3 x {SinkColoring,VAlign,PackRight} x {straight,polyline,ortho} x factors 2^k, k in %s; %s" % (ks, SYMB)),
           layout_ob("layout-scale-bk", "Harness_E_C17", sh, {"BK": [-1, 0, 3] if q else [-1, 0, 1, 2, 3], "P5": [1, 3], "K": [1] if q else [-2, 1, 3]},
                     consts={"P1": 0, "P2": 0, "P4": 2, "SZ": 2}, enctimeout=150, qtimeout=90,
                     bounds="all canonical edge lists N<=3 M<=3 x Brandes-Koepf (balanced and forced layouts) x {straight,ortho}; %s; the +-Inf sentinels of B&K are a symbolic "
                            "constant >= 2^100 (comparisons exact for the finite values below it)" % SYMB)]
    return dict(obligations=obs)


def C18(tier):
    q = tier == "quick"
    sh = shapes(3, 3) if q else shapes(4, 4)
    K = 2 if q else 3
    hist = [{}]
    for i in range(K):
        hist = [dict(h, **{"kind[%d]" % i: k, "mon[%d]" % i: m}) for h in hist for k in range(4) for m in range(2)]
    small = [[(0, 1), (1, 2), (0, 2)], [(0, 0), (0, 1)]]
    obs = [layout_ob("monitor-does-not-change-layout", "Harness_E_C18a", sh, {"P4": [4, 1], "P2": [0, 1]},
                     consts={"P1": 0, "P5": 2, "SZ": 2}, bounds="canonical edge lists x {SinkColoring,VAlign} x {NS,LP}: layout with and without a recording monitor; " + SYMB),
           layout_ob("monitor-does-not-change-layout-bk", "Harness_E_C18a", shapes(3, 3) if q else shapes(4, 4, selfloops=False, connected=True), {"BK": [-1, 0, 3], "P5": [1, 3]},
                     consts={"P1": 0, "P2": 0, "P4": 2, "SZ": 5, "NSFIX": 10, "LSFIX": 20}, loop=96, bounds="canonical edge lists x Brandes-Koepf (balanced / forced) x {straight,ortho}, concrete heterogeneous sizes"),
           layout_ob("monitor-does-not-change-layout-routers", "Harness_E_C18a", shapes(3, 3, selfloops=False, connected=True) if q else shapes(4, 4, selfloops=False, connected=True),
                     {"P5": [0, 1, 3], "P4": [4, 1]},
                     consts={"P1": 0, "P2": 0, "SZ": 5, "NSFIX": 10, "LSFIX": 20}, loop=192, enctimeout=200,
                     bounds="connected loop-free canonical edge lists x {no routing, straight, ortho} x {SinkColoring,VAlign}, concrete heterogeneous sizes: layout with and "
                            "without a recording monitor"),
           layout_ob("monitor-does-not-change-layout-splines", "Harness_E_C18a", shapes(3, 3, selfloops=False, connected=True) if q else shapes(4, 3, selfloops=False, connected=True),
                     {"P4": [4, 1]},
                     consts={"P1": 0, "P2": 0, "P5": 4, "SZ": 5, "NSFIX": 10, "LSFIX": 20}, loop=192, enctimeout=200, validate_cubes=0,
                     bounds="connected loop-free canonical edge lists N<=%s M<=3 x spline routing x {SinkColoring,VAlign}, concrete heterogeneous sizes: layout with and without a recording "
                            "monitor (spline routing runs in the engine's real-arithmetic model on both sides - its points differ from the float run in the last digits, so no translator validation here; a difference is confirmed natively)" % nm(q, 3, 4)),
           dict(name="monitor-histories", pkg=".", func="Harness_E_C18b", consts=dict(OPT_DEFAULT, K=K),
                cubes=[dict(shape_cube(s), **h) for s in small for h in hist],
                bounds="all histories of %d calls, each one of {empty graph (panics), self-looped node, one edge, a 3-node graph} x {own monitor, none}; "
                       "panic / deferred Reset semantics executed by the engine" % K)]
    return dict(obligations=obs)


REG = {"C01": C01, "C02": C02, "C03": C03, "C04": C04, "C05": C05, "C06": C06, "C07": C07, "C08": C08, "C09": C09, "C10": C10,
       "C11": C11, "C12": C12, "C13": C13, "C14": C14, "C16": C16, "C17": C17, "C18": C18}


def get(prop, tier):
    f = REG.get(prop)
    return f(tier) if f else None


def corridors(K, grid, heights):
    """all well-formed corridors of K stacked rectangles with left/right edges on 0..grid: l<r and consecutive
    rectangles share a boundary segment of positive length"""
    ivs = [(l, r) for l in range(grid + 1) for r in range(l + 1, grid + 1)]
    out = []

    def rec(cur):
        if len(cur) == K:
            out.append(list(cur))
            return
        for iv in ivs:
            if cur and not (max(cur[-1][0], iv[0]) < min(cur[-1][1], iv[1])):
                continue
            cur.append(iv)
            rec(cur)
            cur.pop()

    rec([])
    cubes = []
    for c in out:
        for hs in heights:
            if len(hs) < K:
                continue
            cube = {"K": K, "y[0]": 0}
            y = 0
            for i in range(K):
                y += hs[i]
                cube["y[%d]" % (i + 1)] = y
                cube["l[%d]" % i] = 10 * c[i][0]
                cube["r[%d]" % i] = 10 * c[i][1]
            cubes.append(cube)
    return cubes


def C19(tier):
    q = tier == "quick"
    cubes = corridors(1, 2, [[20]]) + corridors(2, 3, [[20, 20], [10, 30], [30, 10]])
    generic = [c for c in corridors(3, 5, [[20, 20, 20]]) if len({c["l[0]"], c["l[1]"], c["l[2]"], c["r[0]"], c["r[1]"], c["r[2]"]}) == 6]
    cubes += corridors(3, 2, [[20, 20, 20]]) if q else corridors(3, 3, [[20, 20, 20], [10, 30, 20]]) + generic + corridors(2, 5, [[10, 40], [40, 10]])

    def staircase(c):
        # two consecutive reflex corners of the same chain can both lie on the funnel: the corridor steps to one side and the second step is
        # shorter than the first (for equal heights: 2*l1 - l2 > l0, resp. mirrored on the right edges)
        l = [c["l[%d]" % i] for i in range(3)]
        r = [c["r[%d]" % i] for i in range(3)]
        return (l[0] < l[1] < l[2] and 2 * l[1] - l[2] > l[0]) or (r[0] > r[1] > r[2] and 2 * r[1] - r[2] < r[0])
    cubes += [c for c in corridors(3, 6, [[20, 20, 20]]) if staircase(c) and c not in cubes]
    obs = [dict(name="shortest-open", pkg="internal/geom", func="Harness_C19", consts={"OPEN": 1, "PANICS": 1}, cubes=cubes, enctimeout=300, qtimeout=120, loop=48,
                bounds="all well-formed corridors of 1..3 rectangles with left/right edges on a grid (x10): K=2 grid 0..3 with heights {20,20},{10,30},{30,10}; K=3 grid %s; "
                       "symbolic: x of the start point on the top side of the first and of the end point on the bottom side of the last rectangle, strictly between "
                       "the corners (as phase5 calls it); panic sites included" % nm(q, "0..2 heights {20,20,20}", "0..3 heights {20,20,20},{10,30,20} plus the 44 generic-position corridors on grid 0..5; K=2 grid 0..5 heights {10,40},{40,10}")
                       + "; plus the 138 staircase corridors on grid 0..6 whose two consecutive reflex corners of one chain can both lie on the funnel")]
    def sg(a, b):
        return "+" if b > a else ("-" if b < a else "0")

    def zigzag4(c, mirror):
        l = [c["l[%d]" % i] for i in range(4)]
        r = [c["r[%d]" % i] for i in range(4)]
        if mirror:
            l, r = [-x for x in r], [-x for x in l]
        lp = "".join(sg(l[i], l[i + 1]) for i in range(3))
        rp = "".join(sg(r[i], r[i + 1]) for i in range(3))
        return rp == "-+-" and lp in ("-0+", "00+", "000", "-00")
    k4 = [c for c in corridors(4, 4, [[10, 10, 10, 10]]) if zigzag4(c, False)]
    if q:
        k4 = k4[::3]
    else:
        k4 += [c for c in corridors(4, 4, [[10, 10, 10, 10]]) if zigzag4(c, True) and c not in k4][::3]
    obs.append(dict(name="shortest-open-four-rectangles", pkg="internal/geom", func="Harness_C19", consts={"OPEN": 1, "PANICS": 1}, cubes=k4, enctimeout=300, qtimeout=120, loop=64,
                    bounds="corridors of FOUR rectangles on grid 0..4 (x10), equal heights, whose right wall narrows, widens and narrows again while the left wall is straight or steps "
                           "out and back in%s: the funnel's right chain holds three vertices when a left vertex arrives (its tangent point lies in the middle of the chain); "
                           "symbolic start/end x as in shortest-open" % (" (quick: every 3rd of the 99)" if q else "; plus every 3rd mirror image")))
    corner = corridors(1, 1, [[20]])
    obs.append(dict(name="shortest-corner-class", pkg="internal/geom", func="Harness_C19", consts={"OPEN": 2, "PANICS": 1}, cubes=corner, enctimeout=60, qtimeout=60, loop=48,
                    replay_timeout=15, validate_cubes=0,
                    bounds="input class of known finding G11c only: start or end point exactly on a corner of its rectangle (the single-rectangle corridor [0,10]x[0,20]); "
                           "every failure inside this class is the listed finding"))
    return dict(obligations=obs)


REG["C19"] = C19


def C20(tier):
    CR = 1000  # coefficient range of the cubic root-finder obligations
    obs = [dict(name="rootfinder-linear-quadratic", pkg="internal/geom", func="Harness_C20_solve2", consts={"UNIQ": 1}, cubes=[{}], solver="z3-new", oneshot=True,
                qworkers=8, qtimeout=200, validate_cubes=0,
                bounds="solve2/solve1: coefficients symbolic reals in [-8,8], candidate root in [-1000,1000]; exact real arithmetic (sqrt by its defining equation); "
                       "relative to the code's epsilon design (|a| < 1e-7 treated as 0)"),
           dict(name="rootfinder-cubic-cardano", pkg="internal/geom", func="Harness_C20_solve3", consts={"UNIQ": 1, "CRANGE": CR}, cubes=[{}], solver="z3-new", oneshot=True,
                qworkers=8, qtimeout=nm(tier == "quick", 200, 600), validate_cubes=0,
                bounds="solve3 with non-vanishing leading coefficient and discriminant >= 0 (Cardano branch): coefficients symbolic reals in [-1000,1000], candidate root (uniqueness / completeness) in [-1000,1000]; "
                       "sqrt/cbrt by their defining equations; the trigonometric branch (disc < 0) is outside")]
    obs.append(dict(name="rootfinder-cubic-trig", pkg="internal/geom", func="Harness_C20_solve3trig", consts={"CRANGE": CR, "AFIX": 0, "BFIX": 0, "ANUM": 1, "ADEN": 1, "BNUM": 0, "BDEN": 1},
                    cubes=[{"REGION": r} for r in (0, 1, 2, 3)], solver="z3-new", oneshot=True, qworkers=8, qtimeout=nm(tier == "quick", 200, 600), validate_cubes=0,
                    bounds="solve3 with non-vanishing leading coefficient and discriminant < 0 (trigonometric branch): coefficients symbolic reals in [-1000,1000] (cube 0: whole domain; "
                           "cubes 1-3: the same claim restricted to q > 0, q < 0, q = 0 so that a counterexample confined to one quadrant of the angle is the model returned); "
                           "cos((atan2(y,x)+2k*pi)/3) by the triple-angle identity and its branch interval, sqrt/cbrt by their defining equations"))
    B = ("real curveIntersects (MODE 1: + curveContained) on a concrete control polygon and one barrier with symbolic real end points in [-8,8]; a symbolic parameter t in [0,1] "
         "stands for any curve point; leading coefficients inside the root finder's epsilon band (non-zero but < 1e-7) excluded; exact real arithmetic. Only control polygons "
         "whose polynomial against the barrier's line is linear, quadratic or constant are registered: for genuinely cubic ones z3's nlsat does not decide the queries within 600 s "
         "(also not with solve3 replaced by its contract), see DESIGN.md")
    for kind, nm_, curves in ((0, "vertical", [3, 4]), (1, "horizontal", [1, 3, 4, 5])):
        for mode in (0, 1):
            obs.append(dict(name="curve-barrier-%s%s" % (nm_, "-contained" if mode else ""), pkg="internal/geom", func="Harness_C20_intersect",
                            consts={"KIND": kind, "SLN": 0, "SLD": 1, "SUMMARY_SOLVE3": 0, "MODE": mode},
                            cubes=[{"CURVE": c} for c in curves], solver="z3-new", oneshot=True, qworkers=8, qtimeout=nm(tier == "quick", 120, 600), validate_cubes=0,
                            bounds=nm_ + " barrier (both directions); " + B))
    # Harness_C20_fit / Harness_C20_tryfit2 (FitSpline control flow with curveContained as an arbitrary boolean; two-point base case) are NOT registered:
    # nlsat leaves the reachability witnesses and the k >= 1 index query undecided (DESIGN.md section 6)
    return dict(obligations=obs)


REG["C20"] = C20


def C15(tier):
    q = tier == "quick"
    sh = shapes(3, 3) if q else shapes(4, 4)
    cyc = [s for s in shapes(3, 3, selfloops=False, connected=True) if not __import__("vlib.driver").driver.is_acyclic(s, 1 + max(max(e) for e in s))]
    B = ("two consecutive calls, no monitor; every store / map update / in-place append / RNG step whose target is a package-level variable or an object "
         "allocated by a package initialiser is a query; a sat answer is confirmed natively by concurrent calls under the race detector")
    obs = [layout_ob("no-shared-state-writes", "Harness_E_C15", sh, {"P1": [0, 1], "P2": [0, 1], "P4": [4, 1, 5]}, consts={"P5": 2, "SZ": 5, "NSFIX": 10, "LSFIX": 20},
                     bounds="canonical edge lists x {greedy,dfs} x {NS,LP} x {SinkColoring,VAlign,PackRight}; " + B),
           layout_ob("no-shared-state-writes-random", "Harness_E_C15", cyc, {"P2": [0, 1]}, consts={"P1": 2, "P4": 1, "P5": 1, "SZ": 5, "NSFIX": 10, "LSFIX": 20},
                     bounds="cyclic edge lists N<=3 M<=3 x greedy with random picks (the RNG step is part of the write set)", enctimeout=100),
           layout_ob("no-shared-state-writes-more", "Harness_E_C15", shapes(3, 3), {"P4": [2, 3], "P5": [0, 1, 3], "BK": [-1, 2]},
                     consts={"P1": 0, "P2": 0, "SZ": 5, "INTSZ": 1, "NSFIX": 10, "LSFIX": 20}, loop=192,
                     bounds="N<=3 M<=3 x {B&K, NS positioner} x {none,straight,ortho}, concrete sizes")]
    obs.append(layout_ob("no-shared-state-writes-splines", "Harness_E_C15", shapes(3, 3, selfloops=False, connected=True) if q else shapes(4, 3, selfloops=False, connected=True),
                         {"P4": [4, 1]}, consts={"P1": 0, "P2": 0, "P5": 4, "SZ": 5, "NSFIX": 10, "LSFIX": 20}, loop=192, enctimeout=200, validate_cubes=0,
                         bounds="connected loop-free canonical edge lists N<=%s M<=3 x spline routing (Shortest, MergeRects, Sides, FitSpline) x {SinkColoring,VAlign}, concrete sizes; " % nm(q, 3, 4) + B))
    return dict(obligations=obs, level="model_checking")


REG["C15"] = C15
