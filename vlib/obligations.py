"""Per-property obligations: which harness is driven over which cubes with which bounds."""
from .driver import edge_lists, shape_cube, product


def phase1_cubes(N, M, fixed=None):
    """all canonical connected loop-free edge lists, fully concretised (fixed = M) or with a symbolic tail"""
    out = []
    fixed = M if fixed is None else fixed
    seen = set()
    for el in edge_lists(N, M):
        pre = tuple(el[:fixed])
        if pre in seen:
            continue
        seen.add(pre)
        c = {"N": N, "M": M, "fixed": fixed}
        for i, (f, t) in enumerate(pre):
            c["ef[%d]" % i] = f
            c["et[%d]" % i] = t
        out.append(c)
    return out


def C14(tier):
    obs = []
    base = {"PANICS": 0, "RANDOM": 0, "KNOWN_G1": 0}
    # fully symbolic shapes (solver picks the edge list)
    sym = [(2, 2), (2, 3)] if tier == "quick" else [(2, 2), (2, 3), (2, 4)]
    for alg, an in ((1, "dfs"), (0, "greedy")):
        cubes = [dict(c) for (n, m) in sym for c in phase1_cubes(n, m, fixed=0)]
        obs.append(dict(name="phase1-%s-symbolic" % an, pkg="internal/phase1", func="Harness_Phase1", consts=dict(base, ALG=alg),
                        cubes=cubes, bounds="edge endpoints symbolic, (N,M) in %s" % sym, enctimeout=200, qtimeout=120))
    # shape cubes with one symbolic tail edge / fully concretised shapes; solver decides map orders
    grid = [(2, 2), (2, 3), (3, 2), (3, 3), (3, 4)] if tier == "quick" else [(2, 2), (2, 3), (2, 4), (3, 2), (3, 3), (3, 4), (3, 5), (4, 3), (4, 4), (4, 5)]
    for alg, an in ((1, "dfs"), (0, "greedy")):
        cubes = [c for (n, m) in grid for c in phase1_cubes(n, m)]
        obs.append(dict(name="phase1-%s-cubes" % an, pkg="internal/phase1", func="Harness_Phase1", consts=dict(base, ALG=alg),
                        cubes=cubes, bounds="all canonical connected edge lists with (N,M) in %s as cubes; symbolic: map iteration order" % grid))
    return dict(obligations=obs)


REG = {"C14": C14}


def get(prop, tier):
    f = REG.get(prop)
    return f(tier) if f else None


# ---------------------------------------------------------------- E-tier (whole autog.Layout)

def shapes(maxN, maxM, selfloops=True, connected=False, **kw):
    out = []
    for N in range(1, maxN + 1):
        for M in range(1, maxM + 1):
            out += edge_lists(N, M, selfloops=selfloops, connected=connected, **kw)
    return out


OPT_DEFAULT = {"P1": 0, "P2": 0, "P4": 4, "P5": 2, "BK": -1, "SZ": 2, "VIRT": 0, "INTSZ": 0, "NSFIX": -1, "LSFIX": -1}


def layout_ob(name, func, shape_list, dims, consts=None, **kw):
    cubes = product([shape_cube(s) for s in shape_list], dims)
    c = dict(OPT_DEFAULT)
    c.update(consts or {})
    return dict(name=name, pkg=".", func=func, consts=c, cubes=cubes, **kw)


def C04(tier):
    sh = shapes(3, 3) if tier == "quick" else shapes(4, 4)
    obs = [layout_ob("layout-no-overlap", "Harness_E_C04", sh, {"P4": [4, 1, 5], "P1": [0, 1], "P2": [0, 1]},
                     consts={"P5": 0, "SZ": 2},
                     bounds="all canonical edge lists (self-loops, several components) N<=%d M<=%d x {SinkColoring,VAlign,PackRight} x {greedy,dfs} x {NS,LP}; "
                            "symbolic: per-node W,H in [0,64], NodeSpacing, LayerSpacing in [0,64], map orders" % ((3, 3) if tier == "quick" else (4, 4)))]
    return dict(obligations=obs)


REG["C04"] = C04


def C03(tier):
    q = tier == "quick"
    sh = shapes(3, 3) if q else shapes(4, 4)
    obs = [layout_ob("layout-bands-ns", "Harness_E_C03", sh, {"P4": [4, 1, 5], "P1": [0, 1]},
                     consts={"P2": 0, "P5": 1, "SZ": 2, "KNOWN_FLAT": 0},
                     bounds="all canonical edge lists N<=%d M<=%d x {SinkColoring,VAlign,PackRight} x {greedy,dfs} x network-simplex layering; "
                            "symbolic: per-node sizes, NodeSpacing>=0, LayerSpacing>=1, map orders" % ((3, 3) if q else (4, 4))),
           layout_ob("layout-bands-lp", "Harness_E_C03", sh, {"P4": [4, 1], "P1": [0, 1]},
                     consts={"P2": 1, "P5": 1, "SZ": 2, "KNOWN_FLAT": 0},
                     bounds="same shapes x longest-path layering")]
    return dict(obligations=obs)


def C02(tier):
    q = tier == "quick"
    sh = shapes(3, 3) if q else shapes(4, 4)
    obs = [layout_ob("layout-same-graph", "Harness_E_C02", sh, {"P1": [0, 1], "P2": [0, 1], "SZ": [0, 1, 2, 3], "VIRT": [0, 1]},
                     consts={"P4": 4, "P5": 2},
                     bounds="all canonical edge lists N<=%d M<=%d x cycle breakers x layerers x size options x virtual-node output" % ((3, 3) if q else (4, 4)))]
    return dict(obligations=obs)


def C05(tier):
    q = tier == "quick"
    sh = shapes(3, 3) if q else shapes(4, 4)
    obs = [layout_ob("layout-edge-anchors", "Harness_E_C05", sh, {"P5": [1, 2, 3], "P4": [4, 1, 5], "P1": [0, 1]},
                     consts={"P2": 0, "SZ": 2},
                     bounds="all canonical edge lists N<=%d M<=%d x {straight,polyline,ortho} x {SinkColoring,VAlign,PackRight} x {greedy,dfs}" % ((3, 3) if q else (4, 4)))]
    return dict(obligations=obs)


def C06(tier):
    q = tier == "quick"
    sh = shapes(3, 3) if q else shapes(4, 4)
    obs = [layout_ob("layout-route-geometry", "Harness_E_C06", sh, {"P5": [1, 2, 3], "P4": [4, 1, 5], "VIRT": [0, 1]},
                     consts={"P1": 1, "P2": 0, "SZ": 2, "KNOWN_ORTHO": 0},
                     bounds="all canonical edge lists N<=%d M<=%d x {straight,polyline,ortho} x {SinkColoring,VAlign,PackRight} x virtual-node output" % ((3, 3) if q else (4, 4)))]
    return dict(obligations=obs)


def C01(tier):
    q = tier == "quick"
    sh = shapes(3, 3) if q else shapes(4, 4)
    obs = [layout_ob("layout-returns", "Harness_E_C01", sh, {"P1": [0, 1, 2], "P2": [0, 1], "P4": [4, 1, 5, 3, 2], "P5": [0, 1, 2, 3]},
                     consts={"SZ": 2},
                     bounds="all canonical edge lists N<=%d M<=%d x 3 cycle breakers x 2 layerers x 5 positioners x {none,straight,polyline,ortho}" % ((3, 3) if q else (4, 4)))]
    return dict(obligations=obs)


REG.update({"C01": C01, "C02": C02, "C03": C03, "C05": C05, "C06": C06})


def C07(tier):
    q = tier == "quick"
    sh = shapes(4, 2) + [s for s in shapes(3, 3) if s not in shapes(4, 2)] if q else shapes(4, 4)
    obs = [layout_ob("layout-deterministic", "Harness_E_C07", sh, {"P1": [0, 1], "P2": [0, 1], "P4": [4, 1]},
                     consts={"P5": 2, "SZ": 2},
                     bounds="canonical edge lists x {greedy,dfs} x {NS,LP} x {SinkColoring,VAlign}, polyline; two calls with independent symbolic map iteration orders",
                     enctimeout=60)]
    return dict(obligations=obs)


REG["C07"] = C07


def trees(maxN, out=True):
    """all rooted trees on <= maxN nodes as canonical edge lists, every edge order; out-trees (edges point away
    from the root) or in-trees"""
    res = []
    for N in range(2, maxN + 1):
        for el in edge_lists(N, N - 1, selfloops=False, connected=True, simple=True):
            indeg = [0] * N
            outdeg = [0] * N
            for f, t in el:
                outdeg[f] += 1
                indeg[t] += 1
            if out and sorted(indeg) == [0] + [1] * (N - 1):
                res.append(el)
            if not out and sorted(outdeg) == [0] + [1] * (N - 1):
                res.append(el)
    return res


def C08(tier):
    q = tier == "quick"
    sh = [s for s in shapes(3, 3, selfloops=False)] if q else shapes(4, 4)
    obs = [layout_ob("layout-rename", "Harness_E_C08", sh, {"P4": [4, 3] if q else [4, 1, 3], "P1": [0] if q else [0, 1]},
                     consts={"P2": 0, "P5": 2, "SZ": 2, "INTSZ": 1},
                     bounds="canonical edge lists x {SinkColoring,NetworkSimplex positioner}; symbolic: injective renaming chosen by the solver from the alphabet "
                            "{a,V1,V2,V3,NE0..NE3,'',non-ASCII,n0,n1}, integer sizes/spacings", enctimeout=90, qtimeout=60)]
    return dict(obligations=obs)


def C09(tier):
    q = tier == "quick"
    multi = [s for s in (shapes(4, 3) if q else shapes(5, 4)) if not __import__("vlib.driver").driver.is_connected(s, 1 + max(max(e) for e in s))]
    obs = [layout_ob("layout-components", "Harness_E_C09", multi, {"P4": [4, 1, 5], "P1": [0, 1], "P2": [0, 1]},
                     consts={"P5": 2, "SZ": 2},
                     bounds="all canonical edge lists with >= 2 components (N<=%d, M<=%d; interleaved edge orders, self-looped singletons) x 3 positioners x 2 breakers x 2 layerers" % ((4, 3) if q else (5, 4)))]
    return dict(obligations=obs)


def C10(tier):
    q = tier == "quick"
    sh = shapes(4, 4, selfloops=False, connected=True) if q else shapes(5, 5, selfloops=False, connected=True)
    obs = [layout_ob("layout-ns-optimal", "Harness_E_C10", sh, {"P1": [0, 1]},
                     consts={"P2": 0, "P4": 1, "P5": 0, "SZ": 0, "LSFIX": 1, "NSFIX": 1},
                     bounds="all canonical connected loop-free edge lists N<=%d M<=%d x {greedy,dfs}; symbolic: an arbitrary alternative layering alt[i] in 0..15 "
                            "(the solver searches for a cheaper feasible layering)" % ((4, 4) if q else (5, 5)))]
    return dict(obligations=obs)


def C11(tier):
    q = tier == "quick"
    sh = shapes(4, 4) if q else shapes(5, 5, selfloops=False)
    obs = [layout_ob("layout-lp-min-layers", "Harness_E_C11", sh, {"P1": [0, 1]},
                     consts={"P2": 1, "P4": 1, "P5": 0, "SZ": 0, "LSFIX": 1, "NSFIX": 1},
                     bounds="all canonical edge lists N<=%d M<=%d x {greedy,dfs} x longest-path layering" % ((4, 4) if q else (5, 5)))]
    return dict(obligations=obs)


def C12(tier):
    q = tier == "quick"
    sh = shapes(4, 4, selfloops=False, connected=True, simple=True) if q else shapes(5, 6, selfloops=False, connected=True, simple=True)
    obs = [layout_ob("layout-crossings", "Harness_E_C12", sh, {"P4": [4, 1, 5], "P2": [0, 1]},
                     consts={"P1": 1, "P5": 2, "SZ": 4, "LSFIX": 1},
                     bounds="all canonical connected simple edge lists N<=%d M<=%d x {SinkColoring,VAlign,PackRight} x {NS,LP}, polyline; symbolic widths, NodeSpacing" % ((4, 4) if q else (5, 6)))]
    return dict(obligations=obs)


def C13(tier):
    q = tier == "quick"
    n = 5 if q else 6
    sh = trees(n, True) + trees(n, False)
    obs = [layout_ob("layout-trees-planar", "Harness_E_C13", sh, {"P4": [4, 1, 5]},
                     consts={"P1": 0, "P2": 0, "P5": 2, "SZ": 4, "LSFIX": 1},
                     bounds="all out-trees and in-trees with <= %d nodes in every edge order x {SinkColoring,VAlign,PackRight}; symbolic widths, NodeSpacing" % n)]
    return dict(obligations=obs)


def C16(tier):
    q = tier == "quick"
    sh = shapes(4, 4, connected=True) if q else shapes(5, 5, connected=True)
    obs = [layout_ob("layout-valign-packright", "Harness_E_C16", sh, {"P4": [1, 5], "P1": [0, 1]},
                     consts={"P2": 0, "P5": 2, "SZ": 2, "VIRT": 1},
                     bounds="all canonical connected edge lists N<=%d M<=%d x {VAlign,PackRight} x {greedy,dfs}, helper nodes in the output; symbolic sizes and spacings" % ((4, 4) if q else (5, 5)))]
    return dict(obligations=obs)


def C17(tier):
    q = tier == "quick"
    sh = shapes(3, 3) if q else shapes(4, 4)
    ks = [-1, 1] if q else [-3, -2, -1, 1, 2, 3, 4, 5, 6]
    obs = [layout_ob("layout-scale", "Harness_E_C17", sh, {"P4": [4, 1, 5, 2], "P5": [1, 2, 3], "K": ks},
                     consts={"P1": 0, "P2": 0, "SZ": 2},
                     bounds="canonical edge lists x {SinkColoring,VAlign,PackRight,B&K} x {straight,polyline,ortho} x factors 2^k, k in %s" % ks)]
    return dict(obligations=obs)


def C18(tier):
    q = tier == "quick"
    sh = shapes(3, 3) if q else shapes(4, 4)
    K = 2 if q else 3
    hist = [{}]
    for i in range(K):
        hist = [dict(h, **{"kind[%d]" % i: k, "mon[%d]" % i: m}) for h in hist for k in range(4) for m in range(2)]
    small = [[(0, 1), (1, 2), (0, 2)], [(0, 0), (0, 1)]]
    obs = [layout_ob("monitor-does-not-change-layout", "Harness_E_C18a", sh, {"P4": [4, 2], "P2": [0, 1]},
                     consts={"P1": 0, "P5": 2, "SZ": 2}, bounds="canonical edge lists x {SinkColoring,B&K} x {NS,LP}: layout with and without a recording monitor"),
           dict(name="monitor-histories", pkg=".", func="Harness_E_C18b", consts=dict(OPT_DEFAULT, K=K),
                cubes=[dict(shape_cube(s), **h) for s in small for h in hist],
                bounds="all histories of %d calls, each one of {empty graph (panics), self-looped node, one edge, a 3-node graph} x {own monitor, none}" % K)]
    return dict(obligations=obs)


REG.update({"C08": C08, "C09": C09, "C10": C10, "C11": C11, "C12": C12, "C13": C13, "C16": C16, "C17": C17, "C18": C18})
