package main

// Translator validation: sample concrete values for the harness' nondet inputs, extend them to a
// full model (map-order picks etc.) with the solver, evaluate the harness' observed outputs under
// that model with the term evaluator, and hand (values, expected observations) to the driver,
// which runs the natively compiled harness on the same values and compares.

import (
	"fmt"
	"math/big"
	"math/rand"
	"os"
	"path/filepath"
	"strings"
	"time"
)

type ValSample struct {
	Values   map[string][]string `json:"values"`
	Observed []string            `json:"observed"`
	HasPicks bool                `json:"has_picks"` // the model fixes map orders / RNG picks the native run cannot be forced to take
}

func fmtObserved(label string, v any) string {
	switch x := v.(type) {
	case bool:
		return fmt.Sprintf("%s=%v", label, x)
	case string:
		return fmt.Sprintf("%s=%q", label, x)
	case uint64:
		return fmt.Sprintf("%s=%d", label, x)
	case *big.Rat:
		if x.IsInt() {
			return fmt.Sprintf("%s=%s", label, x.Num().String())
		}
		f, _ := x.Float64()
		return fmt.Sprintf("%s=%v", label, f)
	}
	return label + "=?"
}

func validationSamples(ex *Exec, k int, seed int64, dir string, op *options) []ValSample {
	rng := rand.New(rand.NewSource(seed))
	var out []ValSample
	extra := false // variables beyond the harness nondets (picks, rand, clock)
	harnessVars := map[string]bool{}
	for _, nd := range ex.nondets {
		if nd.Kind == "pick" || nd.Kind == "rand" {
			extra = true
		} else {
			harnessVars[nd.Var] = true
		}
	}
	for _, v := range vars {
		if !harnessVars[v.name] {
			extra = true
		}
	}
	byName := map[string]*T{}
	for _, v := range vars {
		byName[v.name] = v
	}
	for attempt := 0; attempt < 30*k && len(out) < k; attempt++ {
		m := Model{}
		for _, nd := range ex.nondets {
			v := byName[nd.Var]
			if v == nil {
				continue
			}
			switch nd.Kind {
			case "int":
				m[nd.Var] = fmt.Sprint(v.lo + rng.Int63n(v.hi-v.lo+1))
			case "bool":
				m[nd.Var] = fmt.Sprint(rng.Intn(2) == 1)
			case "real":
				lo, hi := nd.Lo, nd.Hi
				var f float64
				switch rng.Intn(5) {
				case 0:
					f = lo
				case 1:
					f = hi
				default:
					steps := int64((hi - lo) * 4)
					if steps < 1 {
						steps = 1
					}
					f = lo + float64(rng.Int63n(steps+1))/4
					if rng.Intn(2) == 0 {
						f = float64(int64(f/8) * 8)
						if f < lo {
							f = lo
						}
					}
				}
				m[nd.Var] = new(big.Rat).SetFloat64(f).RatString()
			case "str":
				m[nd.Var] = "s:" + []string{"a", "b", "V1", "NE0", "", "n" + fmt.Sprint(rng.Intn(5))}[rng.Intn(6)]
			}
		}
		full := m
		if extra {
			// extend to a full model with the solver
			var c *T = TT
			for name, val := range m {
				v := byName[name]
				switch v.sort {
				case SInt:
					r, _ := new(big.Rat).SetString(val)
					c = And(c, Eq(v, I(r.Num().Int64())))
				case SReal:
					r, _ := new(big.Rat).SetString(val)
					c = And(c, Eq(v, R(r)))
				case SBool:
					if val == "true" {
						c = And(c, v)
					} else {
						c = And(c, Not(v))
					}
				case SStr:
					c = And(c, Eq(v, S(strings.TrimPrefix(val, "s:"))))
				}
			}
			file := filepath.Join(dir, fmt.Sprintf("val%03d.smt2", attempt))
			os.WriteFile(file, []byte(buildQueryText(ex.assumes, c, false)), 0o644)
			v, rest := runSolverFile(op.solver, file, 20*time.Second)
			if v != "sat" {
				continue
			}
			full = parseModel(rest)
		}
		ev := newEvaluator(full)
		ok := true
		for _, a := range ex.assumes {
			if !ev.b(a) {
				ok = false
				break
			}
		}
		if !ok {
			continue
		}
		s := ValSample{Values: map[string][]string{}, HasPicks: false}
		for _, nd := range ex.nondets {
			if nd.Kind == "pick" || nd.Kind == "rand" {
				s.HasPicks = true
				continue
			}
			s.Values[nd.Name] = append(s.Values[nd.Name], full[nd.Var])
		}
		bad := false
		for _, o := range ex.observes {
			if !ev.b(o.g) {
				continue
			}
			t, isT := o.v.(*T)
			if !isT {
				bad = true
				break
			}
			s.Observed = append(s.Observed, fmtObserved(o.Label, ev.eval(t)))
		}
		if bad {
			continue
		}
		out = append(out, s)
	}
	return out
}
