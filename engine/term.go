package main

// Hash-consed term DAG with eager simplification. Sorts: Bool, Int (Go signed/unsigned integers
// other than uint64, modelled as mathematical integers with tracked intervals), Real (float64 on
// the exact dyadic grid, see DESIGN.md), Str (node IDs), BV (uint64, 64-bit bit-vector).

import (
	"fmt"
	"math"
	"math/big"
	"strings"
)

type Sort uint8

const (
	SBool Sort = iota
	SInt
	SReal
	SStr
	SBV
)

func (s Sort) String() string {
	return [...]string{"Bool", "Int", "Real", "String", "(_ BitVec 64)"}[s]
}

type T struct {
	op     string
	a      []*T
	k      int64    // int const
	u      uint64   // bv const
	r      *big.Rat // real const
	name   string   // var name / string const
	sort   Sort
	id     int
	lo, hi int64 // interval (SInt only)
	inf    bool  // real term that may carry the +-Inf sentinel
	rlo, rhi float64 // interval (SReal only; +-Inf = unknown)
	fl     uint8 // support: 1 = depends on a map-order pick / RNG variable, 2 = depends on a harness input
}

const (
	NEG = math.MinInt64 / 4
	POS = math.MaxInt64 / 4
)

var (
	table  = map[string]*T{}
	nterms int
	vars   []*T
	TT, FF *T
	memo   = map[[3]int]*T{}
)

const (
	mEq = iota + 1
	mLt
	mAdd
	mSub
	mAnd
	mOr
	mMul
	mIte
)

func mk(op string, sort Sort, name string, k int64, a ...*T) *T {
	var sb strings.Builder
	sb.WriteString(op)
	sb.WriteByte('|')
	sb.WriteByte(byte('0' + sort))
	sb.WriteString(name)
	sb.WriteByte('|')
	fmt.Fprintf(&sb, "%d", k)
	for _, x := range a {
		fmt.Fprintf(&sb, ",%d", x.id)
	}
	key := sb.String()
	if t, ok := table[key]; ok {
		return t
	}
	nterms++
	t := &T{op: op, a: a, k: k, name: name, sort: sort, id: nterms, lo: NEG, hi: POS, rlo: math.Inf(-1), rhi: math.Inf(1)}
	if sort == SReal {
		realInterval(t)
	}
	for _, x := range a {
		if x.inf {
			t.inf = true
		}
		t.fl |= x.fl
	}
	if op == "var" {
		if strings.HasPrefix(name, "pick") || strings.HasPrefix(name, "vh_randintn") || strings.HasPrefix(name, "vh_unixnano") {
			t.fl = 1
		} else {
			t.fl = 2
		}
	}
	table[key] = t
	return t
}

func init() {
	TT = mk("true", SBool, "", 0)
	FF = mk("false", SBool, "", 0)
}

func B(b bool) *T {
	if b {
		return TT
	}
	return FF
}
func I(k int64) *T { t := mk("const", SInt, "", k); t.lo, t.hi = k, k; return t }
func R(r *big.Rat) *T {
	t := mk("const", SReal, r.RatString(), 0)
	if t.r == nil {
		t.r = new(big.Rat).Set(r)
		f, _ := r.Float64()
		t.rlo, t.rhi = f, f
	}
	return t
}

// realInterval derives a (conservative, outward-rounded by 1e-9 relative) interval for linear real terms.
func realInterval(t *T) {
	w := func(lo, hi float64) {
		pad := 1e-9 * (math.Abs(lo) + math.Abs(hi) + 1)
		t.rlo, t.rhi = lo-pad, hi+pad
	}
	switch t.op {
	case "to_real":
		if t.a[0].lo > NEG && t.a[0].hi < POS {
			t.rlo, t.rhi = float64(t.a[0].lo), float64(t.a[0].hi)
		}
	case "+":
		w(t.a[0].rlo+t.a[1].rlo, t.a[0].rhi+t.a[1].rhi)
	case "-":
		if len(t.a) == 1 {
			t.rlo, t.rhi = -t.a[0].rhi, -t.a[0].rlo
		} else {
			w(t.a[0].rlo-t.a[1].rhi, t.a[0].rhi-t.a[1].rlo)
		}
	case "ite":
		t.rlo, t.rhi = math.Min(t.a[1].rlo, t.a[2].rlo), math.Max(t.a[1].rhi, t.a[2].rhi)
	case "*":
		x, y := t.a[0], t.a[1]
		if !math.IsInf(x.rlo, 0) && !math.IsInf(x.rhi, 0) && !math.IsInf(y.rlo, 0) && !math.IsInf(y.rhi, 0) {
			c := []float64{x.rlo * y.rlo, x.rlo * y.rhi, x.rhi * y.rlo, x.rhi * y.rhi}
			w(math.Min(math.Min(c[0], c[1]), math.Min(c[2], c[3])), math.Max(math.Max(c[0], c[1]), math.Max(c[2], c[3])))
		}
	}
	if math.IsNaN(t.rlo) || math.IsNaN(t.rhi) {
		t.rlo, t.rhi = math.Inf(-1), math.Inf(1)
	}
}
func RF(f float64) *T {
	r := new(big.Rat)
	if r.SetFloat64(f) == nil {
		panic("RF: non-finite float constant")
	}
	return R(r)
}
func RI(k int64) *T { return R(new(big.Rat).SetInt64(k)) }
func S(s string) *T { return mk("const", SStr, s, 0) }
func BV(u uint64) *T {
	t := mk("const", SBV, fmt.Sprintf("%d", u), 0)
	t.u = u
	return t
}

func newVar(name string, sort Sort) (*T, bool) {
	n := len(table)
	t := mk("var", sort, name, 0)
	fresh := len(table) != n
	if fresh {
		vars = append(vars, t)
	}
	return t, fresh
}
func IntVar(name string, lo, hi int64) *T {
	t, fresh := newVar(name, SInt)
	if fresh {
		t.lo, t.hi = lo, hi
	}
	return t
}
func BoolVar(name string) *T { t, _ := newVar(name, SBool); return t }
func RealVar(name string) *T { t, _ := newVar(name, SReal); return t }
func StrVar(name string) *T  { t, _ := newVar(name, SStr); return t }

func isC(t *T) bool { return t.op == "const" || t.op == "true" || t.op == "false" }

func Not(x *T) *T {
	switch {
	case x == TT:
		return FF
	case x == FF:
		return TT
	case x.op == "not":
		return x.a[0]
	}
	return mk("not", SBool, "", 0, x)
}
func lits(x *T, op string) []*T {
	if x.op == op {
		return x.a
	}
	return []*T{x}
}

// eqConst returns (v, c, true) if l is (= v c) with c an int constant
func eqConst(l *T) (*T, int64, bool) {
	if l.op == "=" && l.a[0].sort == SInt {
		if isC(l.a[0]) {
			return l.a[1], l.a[0].k, true
		}
		if isC(l.a[1]) {
			return l.a[0], l.a[1].k, true
		}
	}
	return nil, 0, false
}

func nary(op string, x, y *T) *T {
	unit, zer := TT, FF
	if op == "or" {
		unit, zer = FF, TT
	}
	if x == zer || y == zer {
		return zer
	}
	if x == unit {
		return y
	}
	if y == unit || x == y {
		return x
	}
	key := [3]int{mAnd, x.id, y.id}
	if op == "or" {
		key[0] = mOr
	}
	if x.id > y.id {
		key[1], key[2] = y.id, x.id
	}
	if r, ok := memo[key]; ok {
		return r
	}
	lx, ly := lits(x, op), lits(y, op)
	out := make([]*T, 0, len(lx)+len(ly))
	i, j := 0, 0
	for i < len(lx) || j < len(ly) {
		switch {
		case j >= len(ly) || (i < len(lx) && lx[i].id < ly[j].id):
			out = append(out, lx[i])
			i++
		case i >= len(lx) || ly[j].id < lx[i].id:
			out = append(out, ly[j])
			j++
		default:
			out = append(out, lx[i])
			i++
			j++
		}
	}
	var res *T
	set := make(map[*T]bool, len(out))
	for _, l := range out {
		set[l] = true
	}
	eqs := map[*T]int64{}
	for _, l := range out {
		if l.op == "not" && set[l.a[0]] {
			res = zer
			break
		}
		var e *T
		if op == "and" {
			e = l
		} else if l.op == "not" {
			e = l.a[0]
		}
		if e != nil {
			if v, c, ok := eqConst(e); ok {
				if c0, seen := eqs[v]; seen && c0 != c {
					res = zer
					break
				}
				eqs[v] = c
			}
		}
	}
	if res == nil && len(eqs) > 0 {
		keep := out[:0:0]
		for _, l := range out {
			var e *T
			if op == "and" && l.op == "not" {
				e = l.a[0]
			} else if op == "or" && l.op != "not" {
				e = l
			}
			if e != nil {
				if v, c, ok := eqConst(e); ok {
					if c0, seen := eqs[v]; seen && c0 != c {
						continue
					}
				}
			}
			keep = append(keep, l)
		}
		out = keep
	}
	// absorption: and(x, or(x, ...)) = and(x, ...) : drop any literal of the dual op containing a member
	if res == nil {
		dual := "or"
		if op == "or" {
			dual = "and"
		}
		keep := out[:0:0]
		for _, l := range out {
			drop := false
			if l.op == dual && len(l.a) <= 8 {
				for _, m := range l.a {
					if set[m] {
						drop = true
						break
					}
				}
			}
			if !drop {
				keep = append(keep, l)
			}
		}
		out = keep
	}
	if res == nil {
		if len(out) == 1 {
			res = out[0]
		} else {
			res = mk(op, SBool, "", 0, out...)
		}
	}
	memo[key] = res
	return res
}
func And(x, y *T) *T { return nary("and", x, y) }
func Or(x, y *T) *T  { return nary("or", x, y) }
func AndN(xs ...*T) *T {
	r := TT
	for _, x := range xs {
		r = And(r, x)
	}
	return r
}
func Implies(x, y *T) *T { return Or(Not(x), y) }

func Ite(c, x, y *T) *T {
	if c == TT {
		return x
	}
	if c == FF {
		return y
	}
	if x == y {
		return x
	}
	if x.sort != y.sort {
		panic(fmt.Sprintf("Ite: sort mismatch %v %v (%s / %s)", x.sort, y.sort, x.op, y.op))
	}
	if x.sort == SBool {
		switch {
		case x == TT && y == FF:
			return c
		case x == FF && y == TT:
			return Not(c)
		case y == FF:
			return And(c, x)
		case x == TT:
			return Or(c, y)
		case y == TT:
			return Or(Not(c), x)
		case x == FF:
			return And(Not(c), y)
		}
	}
	if c.op == "not" {
		return Ite(c.a[0], y, x)
	}
	if y.op == "ite" && y.a[0] == c {
		return Ite(c, x, y.a[2])
	}
	if x.op == "ite" && x.a[0] == c {
		return Ite(c, x.a[1], y)
	}
	// ite(c, x, ite(d, x, z)) = ite(c|d, x, z)
	if y.op == "ite" && y.a[1] == x {
		return Ite(Or(c, y.a[0]), x, y.a[2])
	}
	t := mk("ite", x.sort, "", 0, c, x, y)
	if x.sort == SInt {
		t.lo, t.hi = min(x.lo, y.lo), max(x.hi, y.hi)
	}
	return t
}

func constEq(x, y *T) bool {
	switch x.sort {
	case SInt:
		return x.k == y.k
	case SReal:
		return x.r.Cmp(y.r) == 0
	case SStr:
		return x.name == y.name
	case SBV:
		return x.u == y.u
	}
	return x == y
}

func Eq(x, y *T) *T {
	if x.sort != y.sort {
		panic(fmt.Sprintf("Eq: sort mismatch %v %v", x.sort, y.sort))
	}
	if x.id > y.id {
		x, y = y, x
	}
	key := [3]int{mEq, x.id, y.id}
	if r, ok := memo[key]; ok {
		return r
	}
	r := eq0(x, y)
	memo[key] = r
	return r
}
func eq0(x, y *T) *T {
	if x == y {
		return TT
	}
	if x.sort == SBool {
		if x == TT {
			return y
		}
		if y == TT {
			return x
		}
		if x == FF {
			return Not(y)
		}
		if y == FF {
			return Not(x)
		}
		return mk("=", SBool, "", 0, x, y)
	}
	if isC(x) && isC(y) {
		return B(constEq(x, y))
	}
	if x.sort == SInt && (x.hi < y.lo || y.hi < x.lo) {
		return FF
	}
	if isC(y) && x.op == "ite" && (isC(x.a[1]) || isC(x.a[2])) {
		return Ite(x.a[0], Eq(x.a[1], y), Eq(x.a[2], y))
	}
	if isC(x) && y.op == "ite" && (isC(y.a[1]) || isC(y.a[2])) {
		return Ite(y.a[0], Eq(y.a[1], x), Eq(y.a[2], x))
	}
	if x.sort == SStr {
		if x.op == "ite" {
			return Ite(x.a[0], Eq(x.a[1], y), Eq(x.a[2], y))
		}
		if y.op == "ite" {
			return Ite(y.a[0], Eq(y.a[1], x), Eq(y.a[2], x))
		}
	}
	// (v + c1) = c2
	if x.sort == SInt {
		if isC(y) && x.op == "+" && isC(x.a[1]) {
			if d, ok := subOK(y.k, x.a[1].k); ok {
				return Eq(x.a[0], I(d))
			}
		}
		if isC(x) && y.op == "+" && isC(y.a[1]) {
			if d, ok := subOK(x.k, y.a[1].k); ok {
				return Eq(y.a[0], I(d))
			}
		}
	}
	return mk("=", SBool, "", 0, x, y)
}

func Lt(x, y *T) *T {
	if x.sort != y.sort {
		panic(fmt.Sprintf("Lt: sort mismatch %v %v", x.sort, y.sort))
	}
	key := [3]int{mLt, x.id, y.id}
	if r, ok := memo[key]; ok {
		return r
	}
	r := lt0(x, y)
	memo[key] = r
	return r
}
func lt0(x, y *T) *T {
	if x == y {
		return FF
	}
	if isC(x) && isC(y) {
		switch x.sort {
		case SInt:
			return B(x.k < y.k)
		case SReal:
			return B(x.r.Cmp(y.r) < 0)
		case SBV:
			return B(x.u < y.u)
		case SStr:
			return B(x.name < y.name)
		}
	}
	if x.sort == SInt {
		if x.hi < y.lo {
			return TT
		}
		if x.lo >= y.hi {
			return FF
		}
		if isC(y) && x.op == "+" && isC(x.a[1]) {
			if d, ok := subOK(y.k, x.a[1].k); ok {
				return Lt(x.a[0], I(d))
			}
		}
		if isC(x) && y.op == "+" && isC(y.a[1]) {
			if d, ok := subOK(x.k, y.a[1].k); ok {
				return Lt(I(d), y.a[0])
			}
		}
	}
	if x.sort == SReal {
		if x.rhi < y.rlo {
			return TT
		}
		if x.rlo > y.rhi {
			return FF
		}
	}
	if isC(y) && x.op == "ite" && (isC(x.a[1]) || isC(x.a[2])) {
		return Ite(x.a[0], Lt(x.a[1], y), Lt(x.a[2], y))
	}
	if isC(x) && y.op == "ite" && (isC(y.a[1]) || isC(y.a[2])) {
		return Ite(y.a[0], Lt(x, y.a[1]), Lt(x, y.a[2]))
	}
	if x.sort == SStr {
		// strings are ite-trees over constants (solver-chosen names): expand completely, no string theory needed
		if x.op == "ite" {
			return Ite(x.a[0], Lt(x.a[1], y), Lt(x.a[2], y))
		}
		if y.op == "ite" {
			return Ite(y.a[0], Lt(x, y.a[1]), Lt(x, y.a[2]))
		}
	}
	op := "<"
	if x.sort == SBV {
		op = "bvult"
	} else if x.sort == SStr {
		op = "str.<"
	}
	return mk(op, SBool, "", 0, x, y)
}
func Le(x, y *T) *T { return Not(Lt(y, x)) }

func addOK(a, b int64) (int64, bool) {
	s := a + b
	if (a > 0 && b > 0 && s < 0) || (a < 0 && b < 0 && s >= 0) {
		return 0, false
	}
	return s, true
}
func subOK(a, b int64) (int64, bool) {
	if b == math.MinInt64 {
		return 0, false
	}
	return addOK(a, -b)
}

func sat(a, b int64) int64 {
	s := a + b
	if (a > 0 && b > 0 && s < 0) || s > POS {
		return POS
	}
	if (a < 0 && b < 0 && s >= 0) || s < NEG {
		return NEG
	}
	return s
}

func Add(x, y *T) *T {
	if x.sort != y.sort {
		panic(fmt.Sprintf("Add: sort mismatch %v %v", x.sort, y.sort))
	}
	key := [3]int{mAdd, x.id, y.id}
	if r, ok := memo[key]; ok {
		return r
	}
	var r *T
	switch x.sort {
	case SInt:
		r = addI(x, y)
	case SReal:
		r = addR(x, y)
	case SBV:
		if isC(x) && isC(y) {
			r = BV(x.u + y.u)
		} else {
			r = mk("bvadd", SBV, "", 0, x, y)
		}
	case SStr:
		r = Concat(x, y)
	default:
		panic("Add: bad sort")
	}
	memo[key] = r
	return r
}
func addI(x, y *T) *T {
	if isC(x) && isC(y) {
		if s, ok := addOK(x.k, y.k); ok {
			return I(s)
		}
		t := mk("+", SInt, "", 0, x, y)
		t.lo, t.hi = sat(x.lo, y.lo), sat(x.hi, y.hi)
		return t
	}
	if isC(x) && x.k == 0 {
		return y
	}
	if isC(y) && y.k == 0 {
		return x
	}
	if isC(y) && x.op == "ite" && (isC(x.a[1]) || isC(x.a[2])) {
		return Ite(x.a[0], Add(x.a[1], y), Add(x.a[2], y))
	}
	if isC(x) && y.op == "ite" && (isC(y.a[1]) || isC(y.a[2])) {
		return Ite(y.a[0], Add(x, y.a[1]), Add(x, y.a[2]))
	}
	if isC(y) && x.op == "+" && isC(x.a[1]) {
		if s, ok := addOK(x.a[1].k, y.k); ok {
			return Add(x.a[0], I(s))
		}
	}
	if isC(x) && y.op == "+" && isC(y.a[1]) {
		if s, ok := addOK(y.a[1].k, x.k); ok {
			return Add(y.a[0], I(s))
		}
	}
	if isC(x) {
		x, y = y, x
	}
	// (a + c1) + b  ->  (a + b) + c1
	if !isC(y) && x.op == "+" && isC(x.a[1]) {
		return Add(Add(x.a[0], y), x.a[1])
	}
	if !isC(y) && y.op == "+" && isC(y.a[1]) {
		return Add(Add(x, y.a[0]), y.a[1])
	}
	t := mk("+", SInt, "", 0, x, y)
	t.lo, t.hi = sat(x.lo, y.lo), sat(x.hi, y.hi)
	return t
}
func addR(x, y *T) *T {
	if isC(x) && isC(y) {
		return R(new(big.Rat).Add(x.r, y.r))
	}
	if isC(x) && x.r.Sign() == 0 {
		return y
	}
	if isC(y) && y.r.Sign() == 0 {
		return x
	}
	if isC(x) {
		x, y = y, x
	}
	if isC(y) && x.op == "+" && isC(x.a[1]) {
		return Add(x.a[0], R(new(big.Rat).Add(x.a[1].r, y.r)))
	}
	return mk("+", SReal, "", 0, x, y)
}
func Neg(x *T) *T {
	switch x.sort {
	case SInt:
		if isC(x) && x.k != math.MinInt64 {
			return I(-x.k)
		}
		t := mk("-", SInt, "", 0, x)
		t.lo, t.hi = sat(0, -max(x.hi, NEG)), sat(0, -max(x.lo, NEG))
		return t
	case SReal:
		if isC(x) {
			return R(new(big.Rat).Neg(x.r))
		}
		if x.op == "-" && len(x.a) == 1 {
			return x.a[0]
		}
		return mk("-", SReal, "", 0, x)
	case SBV:
		if isC(x) {
			return BV(-x.u)
		}
		return mk("bvneg", SBV, "", 0, x)
	}
	panic("Neg: bad sort")
}
func Sub(x, y *T) *T {
	if x.sort != y.sort {
		panic(fmt.Sprintf("Sub: sort mismatch %v %v", x.sort, y.sort))
	}
	key := [3]int{mSub, x.id, y.id}
	if r, ok := memo[key]; ok {
		return r
	}
	var r *T
	switch x.sort {
	case SInt:
		r = subI(x, y)
	case SReal:
		switch {
		case isC(y):
			r = Add(x, R(new(big.Rat).Neg(y.r)))
		case x == y && !x.inf:
			r = RI(0)
		default:
			r = mk("-", SReal, "", 0, x, y)
		}
	case SBV:
		if isC(x) && isC(y) {
			r = BV(x.u - y.u)
		} else {
			r = mk("bvsub", SBV, "", 0, x, y)
		}
	default:
		panic("Sub: bad sort")
	}
	memo[key] = r
	return r
}
func subI(x, y *T) *T {
	if isC(y) && y.k != math.MinInt64 {
		return Add(x, I(-y.k))
	}
	if x == y {
		return I(0)
	}
	if isC(x) && y.op == "ite" && (isC(y.a[1]) || isC(y.a[2])) {
		return Ite(y.a[0], Sub(x, y.a[1]), Sub(x, y.a[2]))
	}
	// (a + c) - b -> (a - b) + c ; a - (b + c) -> (a - b) - c
	if x.op == "+" && isC(x.a[1]) {
		return Add(Sub(x.a[0], y), x.a[1])
	}
	if y.op == "+" && isC(y.a[1]) && y.a[1].k != math.MinInt64 {
		return Add(Sub(x, y.a[0]), I(-y.a[1].k))
	}
	t := mk("-", SInt, "", 0, x, y)
	t.lo, t.hi = sat(x.lo, -y.hi), sat(x.hi, -y.lo)
	return t
}

func mulBound(a, b int64) int64 {
	if a == 0 || b == 0 {
		return 0
	}
	p := a * b
	if p/b != a || p > POS || p < NEG {
		if (a < 0) != (b < 0) {
			return NEG
		}
		return POS
	}
	return p
}

func Mul(x, y *T) *T {
	if x.sort != y.sort {
		panic(fmt.Sprintf("Mul: sort mismatch %v %v", x.sort, y.sort))
	}
	switch x.sort {
	case SInt:
		if isC(x) && isC(y) {
			if p := mulBound(x.k, y.k); p > NEG && p < POS {
				return I(x.k * y.k)
			}
		}
		if isC(x) {
			x, y = y, x
		}
		if isC(y) {
			switch y.k {
			case 0:
				return I(0)
			case 1:
				return x
			}
			if x.op == "ite" && (isC(x.a[1]) || isC(x.a[2])) {
				return Ite(x.a[0], Mul(x.a[1], y), Mul(x.a[2], y))
			}
		}
		t := mk("*", SInt, "", 0, x, y)
		c := []int64{mulBound(x.lo, y.lo), mulBound(x.lo, y.hi), mulBound(x.hi, y.lo), mulBound(x.hi, y.hi)}
		t.lo, t.hi = min(c[0], c[1], c[2], c[3]), max(c[0], c[1], c[2], c[3])
		return t
	case SReal:
		if isC(x) && isC(y) {
			return R(new(big.Rat).Mul(x.r, y.r))
		}
		if isC(x) {
			x, y = y, x
		}
		if isC(y) {
			if y.r.Sign() == 0 && !x.inf {
				return RI(0)
			}
			if y.r.Cmp(big.NewRat(1, 1)) == 0 {
				return x
			}
		}
		// a factor that is an ite-tree over constants (a concrete value merged along several paths) is
		// distributed, which keeps the product linear
		if !isC(x) && !isC(y) {
			if r, ok := distIte(y, func(c *T) *T { return Mul(x, c) }, 0); ok {
				return r
			}
			if r, ok := distIte(x, func(c *T) *T { return Mul(c, y) }, 0); ok {
				return r
			}
		}
		return mk("*", SReal, "", 0, x, y)
	case SBV:
		if isC(x) && isC(y) {
			return BV(x.u * y.u)
		}
		return mk("bvmul", SBV, "", 0, x, y)
	}
	panic("Mul: bad sort")
}

// DivR is real division (float64 '/'); y != 0 is the caller's business (IEEE gives Inf/NaN, flagged there).
func DivR(x, y *T) *T {
	if isC(y) && y.r.Sign() != 0 {
		if isC(x) {
			return R(new(big.Rat).Quo(x.r, y.r))
		}
		return Mul(x, R(new(big.Rat).Inv(y.r)))
	}
	if r, ok := distIte(y, func(c *T) *T {
		if c.r.Sign() == 0 {
			return mk("/", SReal, "", 0, x, c)
		}
		return DivR(x, c)
	}, 0); ok && !isC(y) {
		return r
	}
	return mk("/", SReal, "", 0, x, y)
}

// distIte applies f to the constant leaves of an ite-tree whose leaves are ALL constants (depth <= 6).
func distIte(t *T, f func(*T) *T, depth int) (*T, bool) {
	if isC(t) {
		return f(t), true
	}
	if t.op == "ite" && depth < 6 {
		if !iteConstTree(t, depth) {
			return nil, false
		}
		a, _ := distIte(t.a[1], f, depth+1)
		b, _ := distIte(t.a[2], f, depth+1)
		return Ite(t.a[0], a, b), true
	}
	return nil, false
}

func iteConstTree(t *T, depth int) bool {
	if isC(t) {
		return true
	}
	if t.op == "ite" && depth < 6 {
		return iteConstTree(t.a[1], depth+1) && iteConstTree(t.a[2], depth+1)
	}
	return false
}

// QuoI / RemI: Go integer division truncating toward zero.
func QuoI(x, y *T) *T {
	if isC(x) && isC(y) && y.k != 0 {
		return I(x.k / y.k)
	}
	if isC(y) && y.k == 1 {
		return x
	}
	if isC(y) && y.k != 0 && x.op == "ite" && (isC(x.a[1]) || isC(x.a[2])) {
		return Ite(x.a[0], QuoI(x.a[1], y), QuoI(x.a[2], y))
	}
	if x.lo >= 0 && y.lo > 0 {
		t := mk("div", SInt, "", 0, x, y)
		t.lo, t.hi = 0, x.hi
		if isC(y) {
			t.lo, t.hi = x.lo/y.k, x.hi/y.k
		}
		return t
	}
	// general: sign-correct via abs values
	ax := Ite(Lt(x, I(0)), Neg(x), x)
	ay := Ite(Lt(y, I(0)), Neg(y), y)
	q := mk("div", SInt, "", 0, ax, ay)
	q.lo, q.hi = 0, max(absb(x.lo), absb(x.hi))
	neg := Not(Eq(Lt(x, I(0)), Lt(y, I(0))))
	return Ite(neg, Neg(q), q)
}
func absb(a int64) int64 {
	if a < 0 {
		if a <= NEG {
			return POS
		}
		return -a
	}
	return a
}
func RemI(x, y *T) *T {
	if isC(x) && isC(y) && y.k != 0 {
		return I(x.k % y.k)
	}
	if isC(y) && y.k != 0 && x.op == "ite" && (isC(x.a[1]) || isC(x.a[2])) {
		return Ite(x.a[0], RemI(x.a[1], y), RemI(x.a[2], y))
	}
	if x.lo >= 0 && y.lo > 0 {
		t := mk("mod", SInt, "", 0, x, y)
		t.lo, t.hi = 0, min(x.hi, y.hi-1)
		return t
	}
	return Sub(x, Mul(QuoI(x, y), y))
}

func ToReal(x *T) *T {
	if isC(x) {
		return RI(x.k)
	}
	if x.op == "ite" && (isC(x.a[1]) || isC(x.a[2])) {
		return Ite(x.a[0], ToReal(x.a[1]), ToReal(x.a[2]))
	}
	return mk("to_real", SReal, "", 0, x)
}

// Floor of a real as Int.
func Floor(x *T) *T {
	if isC(x) {
		f := new(big.Int).Div(x.r.Num(), x.r.Denom()) // Euclidean; denom>0 so floor
		return I(f.Int64())
	}
	if x.op == "to_real" {
		return x.a[0]
	}
	t := mk("to_int", SInt, "", 0, x)
	if x.rlo > -1e15 && x.rhi < 1e15 {
		t.lo, t.hi = int64(math.Floor(x.rlo)), int64(math.Floor(x.rhi))
	}
	return t
}

// Trunc: float64 -> int conversion (toward zero)
func Trunc(x *T) *T {
	if x.op == "to_real" {
		return x.a[0]
	}
	if isC(x) {
		if x.r.Sign() >= 0 {
			return Floor(x)
		}
		return Neg(Floor(Neg(x)))
	}
	return Ite(Lt(x, RI(0)), Neg(Floor(Neg(x))), Floor(x))
}

func Concat(x, y *T) *T {
	if isC(x) && isC(y) {
		return S(x.name + y.name)
	}
	if isC(x) && x.name == "" {
		return y
	}
	if isC(y) && y.name == "" {
		return x
	}
	return mk("str.++", SStr, "", 0, x, y)
}
func StrFromInt(x *T) *T {
	if isC(x) {
		return S(fmt.Sprintf("%d", x.k))
	}
	if x.op == "ite" {
		return Ite(x.a[0], StrFromInt(x.a[1]), StrFromInt(x.a[2]))
	}
	if x.lo >= 0 {
		return mk("str.from_int", SStr, "", 0, x)
	}
	return Ite(Lt(x, I(0)), Concat(S("-"), mk("str.from_int", SStr, "", 0, Neg(x))), mk("str.from_int", SStr, "", 0, x))
}
func StrLen(x *T) *T {
	if isC(x) {
		return I(int64(len(x.name)))
	}
	t := mk("str.len", SInt, "", 0, x)
	t.lo, t.hi = 0, 1<<20
	return t
}

// bit-vector (uint64) helpers
func BVop(op string, x, y *T) *T {
	if isC(x) && isC(y) {
		switch op {
		case "bvor":
			return BV(x.u | y.u)
		case "bvand":
			return BV(x.u & y.u)
		case "bvxor":
			return BV(x.u ^ y.u)
		case "bvshl":
			if y.u >= 64 {
				return BV(0)
			}
			return BV(x.u << y.u)
		case "bvlshr":
			if y.u >= 64 {
				return BV(0)
			}
			return BV(x.u >> y.u)
		case "bvudiv":
			if y.u != 0 {
				return BV(x.u / y.u)
			}
		case "bvurem":
			if y.u != 0 {
				return BV(x.u % y.u)
			}
		}
	}
	return mk(op, SBV, "", 0, x, y)
}
func IntToBV(x *T) *T {
	if isC(x) {
		return BV(uint64(x.k))
	}
	if x.op == "ite" && (isC(x.a[1]) || isC(x.a[2])) {
		return Ite(x.a[0], IntToBV(x.a[1]), IntToBV(x.a[2]))
	}
	return mk("int2bv", SBV, "", 0, x)
}
func BVToInt(x *T, signed bool) *T {
	if isC(x) {
		if signed {
			return I(int64(x.u))
		}
		if x.u <= math.MaxInt64 {
			return I(int64(x.u))
		}
	}
	t := mk("bv2int", SInt, "", 0, x)
	t.lo, t.hi = 0, POS
	if signed {
		// two's complement reinterpretation
		return Ite(mk("bvult", SBool, "", 0, x, BV(1<<63)), t, Sub(t, mk("pow2_64", SInt, "", 0)))
	}
	return t
}

func Min(x, y *T) *T { return Ite(Lt(y, x), y, x) }
func Max(x, y *T) *T { return Ite(Lt(x, y), y, x) }

// termSize counts DAG nodes reachable from the given roots.
func termSize(roots ...*T) int {
	seen := map[*T]bool{}
	var st []*T
	st = append(st, roots...)
	for len(st) > 0 {
		t := st[len(st)-1]
		st = st[:len(st)-1]
		if seen[t] {
			continue
		}
		seen[t] = true
		st = append(st, t.a...)
	}
	return len(seen)
}

// dumpTerm prints a term up to the given depth (debugging aid).
func dumpTerm(t *T, depth int) string {
	switch t.op {
	case "true", "false":
		return t.op
	case "const":
		switch t.sort {
		case SInt:
			return fmt.Sprint(t.k)
		case SReal:
			return t.r.RatString()
		case SStr:
			return fmt.Sprintf("%q", t.name)
		}
		return fmt.Sprint(t.u)
	case "var":
		return t.name
	}
	if depth == 0 {
		return fmt.Sprintf("#%d", t.id)
	}
	var sb strings.Builder
	sb.WriteString("(" + t.op)
	for _, a := range t.a {
		sb.WriteString(" " + dumpTerm(a, depth-1))
	}
	sb.WriteString(")")
	if t.sort == SReal {
		fmt.Fprintf(&sb, "[%.3g,%.3g]", t.rlo, t.rhi)
	}
	return sb.String()
}
