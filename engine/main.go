package main

// gosmt: bounded symbolic execution of Go SSA (the real code of /repo plus an overlaid harness)
// to SMT-LIB2.
//
//	gosmt run -pkg internal/phase1 -func Harness_X -const N=3 -const M=4 [-cubes cubes.json] -out r.json

import (
	"crypto/sha256"
	"encoding/json"
	"flag"
	"fmt"
	"go/types"
	"os"
	"path/filepath"
	"runtime/debug"
	"sort"
	"strconv"
	"strings"
	"time"

	"golang.org/x/tools/go/packages"
	"golang.org/x/tools/go/ssa"
	"golang.org/x/tools/go/ssa/ssautil"
)

type constFlags map[string]int64

func (c constFlags) String() string { return fmt.Sprint(map[string]int64(c)) }
func (c constFlags) Set(s string) error {
	i := strings.LastIndexByte(s, '=')
	if i < 0 {
		return fmt.Errorf("want name=value")
	}
	v, err := strconv.ParseInt(s[i+1:], 10, 64)
	if err != nil {
		return err
	}
	c[s[:i]] = v
	return nil
}

type RunResult struct {
	Consts     map[string]int64 `json:"consts"`
	Status     string           `json:"status"` // ok | unsupported | error
	Message    string           `json:"message,omitempty"`
	Blocks     int              `json:"blocks"`
	Edges      int              `json:"edges"`
	Calls      int              `json:"calls"`
	Terms      int              `json:"terms"`
	Objects    int              `json:"objects"`
	Vars       int              `json:"vars"`
	Assumes    int              `json:"assumes"`
	Pruned     int              `json:"pruned"`
	PruneChk   int              `json:"prune_checks"`
	PruneHits  int              `json:"prune_model_hits"`
	PruneSecs  float64          `json:"prune_secs"`
	EncodeSecs float64          `json:"encode_secs"`
	SolveSecs  float64          `json:"solve_secs"`
	NQueries   int              `json:"n_queries"`
	NTrivial   int              `json:"n_trivial"`
	Queries    []QResult        `json:"queries"` // all non-trivial queries + every query that is not unsat
	Nondets    []NondetRec      `json:"nondets,omitempty"`
	Inexact    map[string]int   `json:"inexact,omitempty"`
	CheckPanic bool             `json:"check_panics"`
	Samples    []ValSample      `json:"validation_samples,omitempty"`
}

type Output struct {
	Harness   string            `json:"harness"`
	Pkg       string            `json:"pkg"`
	LoopBound int               `json:"loop_bound"`
	DepthMax  int               `json:"depth_max"`
	LoadSecs  float64           `json:"load_secs"`
	Status    string            `json:"status"`
	Message   string            `json:"message,omitempty"`
	Runs      []*RunResult      `json:"runs"`
	Funcs     map[string]string `json:"funcs"` // executed function -> source span + sha256
	Stubs     []string          `json:"stubs"`
}

func writeOutput(o *Output, out string) {
	b, _ := json.Marshal(o)
	if out == "" || out == "-" {
		os.Stdout.Write(b)
		return
	}
	os.WriteFile(out, b, 0o644)
}

func fail(o *Output, out string, status, msg string) {
	o.Status = status
	o.Message = msg
	writeOutput(o, out)
	fmt.Fprintf(os.Stderr, "gosmt: %s: %s\n", status, msg)
	os.Exit(0)
}

func resetTerms() {
	table = map[string]*T{}
	memo = map[[3]int]*T{}
	vars = nil
	nterms = 0
	nobj = 0
	TT = mk("true", SBool, "", 0)
	FF = mk("false", SBool, "", 0)
}

type options struct {
	loopBound, depthMax, qTimeout, encTimeout, pruneMs, workers, maxTerms, validate int
	solver, keep, traceQ, mapOrder, keepSat                                       string
	cross, prof, decide, oneshot                                                  bool
	seed                                                                          int64
}

func main() {
	if len(os.Args) < 2 || os.Args[1] != "run" {
		fmt.Fprintln(os.Stderr, "usage: gosmt run [flags]")
		os.Exit(2)
	}
	fs := flag.NewFlagSet("run", flag.ExitOnError)
	repo := fs.String("repo", "/repo", "repository root")
	hdir := fs.String("harness", "/verif/harness", "harness root")
	pkgRel := fs.String("pkg", "", "package dir relative to repo ('.' for root)")
	entry := fs.String("func", "", "harness function")
	out := fs.String("out", "-", "result json")
	cubesFile := fs.String("cubes", "", "json file with a list of constant maps (one run per cube)")
	var op options
	fs.IntVar(&op.loopBound, "loop", 64, "loop unwinding bound")
	fs.IntVar(&op.depthMax, "depth", 8, "recursion depth bound per function")
	fs.IntVar(&op.qTimeout, "qtimeout", 60, "per-query solver timeout (s)")
	fs.IntVar(&op.encTimeout, "enctimeout", 600, "encoding timeout per run (s)")
	fs.IntVar(&op.maxTerms, "maxterms", 4000000, "abort encoding beyond this many terms")
	fs.IntVar(&op.pruneMs, "prunems", 200, "pruning check timeout (ms); 0 disables pruning")
	fs.IntVar(&op.workers, "workers", 4, "parallel solver processes")
	fs.IntVar(&op.validate, "validate", 0, "number of translator-validation samples per run")
	fs.Int64Var(&op.seed, "seed", 1, "seed for validation sampling")
	fs.StringVar(&op.solver, "solver", "z3", "z3 | z3-new | cvc5")
	fs.BoolVar(&op.cross, "cross", false, "cross-check every decided query with z3-new and cvc5")
	fs.StringVar(&op.keep, "keep", "", "directory to keep SMT files in")
	fs.StringVar(&op.keepSat, "keepsat", "", "directory into which the SMT file of every cube with a sat assert/panic/unwind query is copied")
	fs.StringVar(&op.traceQ, "trace", "", "print the block trace of the model of the sat query with this label")
	fs.BoolVar(&op.decide, "decide", false, "ask the pruning solver at every symbolic branch whether it is decided")
	fs.StringVar(&op.mapOrder, "maporder", "symbolic", "symbolic: every range over a map visits the keys in a solver-chosen order; flip: insertion or reverse insertion order (one solver-chosen boolean per range); fixed: insertion order")
	fs.BoolVar(&op.oneshot, "oneshot", false, "one non-incremental solver run per query (needed for non-linear arithmetic)")
	fs.BoolVar(&op.prof, "profile", false, "print per-function term/time profile of the encoding")
	consts := constFlags{}
	fs.Var(consts, "const", "harness constant name=value (repeatable)")
	fs.Parse(os.Args[2:])

	o := &Output{Harness: *entry, Pkg: *pkgRel, LoopBound: op.loopBound, DepthMax: op.depthMax, Funcs: map[string]string{}}
	t0 := time.Now()

	overlay := map[string][]byte{}
	hsub := *pkgRel
	if hsub == "." {
		hsub = "_root"
	}
	files, _ := filepath.Glob(filepath.Join(*hdir, hsub, "*.go"))
	if len(files) == 0 {
		fail(o, *out, "error", "no harness files for package "+*pkgRel)
	}
	pkgName := ""
	for _, f := range files {
		b, err := os.ReadFile(f)
		if err != nil {
			fail(o, *out, "error", err.Error())
		}
		overlay[filepath.Join(*repo, *pkgRel, "zz_verif_"+filepath.Base(f))] = b
		if pkgName == "" {
			for _, line := range strings.Split(string(b), "\n") {
				if strings.HasPrefix(line, "package ") {
					pkgName = strings.TrimSpace(strings.TrimPrefix(line, "package "))
					break
				}
			}
		}
	}
	prelude, err := os.ReadFile(filepath.Join(*hdir, "vh_engine.go.tmpl"))
	if err != nil {
		fail(o, *out, "error", err.Error())
	}
	overlay[filepath.Join(*repo, *pkgRel, "zz_verif_vh.go")] = []byte(strings.ReplaceAll(string(prelude), "PKGNAME", pkgName))

	cfg := &packages.Config{Mode: packages.LoadAllSyntax | packages.NeedModule, Dir: *repo,
		Env:     append(os.Environ(), "GOFLAGS=-mod=mod", "GOPROXY=off", "GOSUMDB=off", "GOTOOLCHAIN=local"),
		Overlay: overlay}
	pkgs, err := packages.Load(cfg, "./"+*pkgRel)
	if err != nil {
		fail(o, *out, "error", "load: "+err.Error())
	}
	var errs []string
	packages.Visit(pkgs, nil, func(p *packages.Package) {
		for _, e := range p.Errors {
			errs = append(errs, e.Error())
		}
	})
	if len(errs) > 0 {
		fail(o, *out, "error", "load errors: "+strings.Join(errs, "; "))
	}
	prog, spkgs := ssautil.AllPackages(pkgs, ssa.InstantiateGenerics)
	prog.Build()
	if spkgs[0] == nil {
		fail(o, *out, "error", "no ssa package")
	}
	fn := spkgs[0].Func(*entry)
	if fn == nil {
		fail(o, *out, "error", "no function "+*entry)
	}
	o.LoadSecs = time.Since(t0).Seconds()
	modPath := pkgs[0].Module.Path

	cubes := []map[string]int64{{}}
	if *cubesFile != "" {
		b, err := os.ReadFile(*cubesFile)
		if err != nil {
			fail(o, *out, "error", err.Error())
		}
		cubes = nil
		if err := json.Unmarshal(b, &cubes); err != nil {
			fail(o, *out, "error", "cubes: "+err.Error())
		}
	}
	infos := map[*ssa.Function]*fnInfo{}
	fnsSeen := map[string]bool{}
	stubs := map[string]bool{}
	for ci, cube := range cubes {
		cs := map[string]int64{}
		for k, v := range consts {
			cs[k] = v
		}
		for k, v := range cube {
			cs[k] = v
		}
		resetTerms()
		keep := op.keep
		if keep != "" && len(cubes) > 1 {
			keep = filepath.Join(keep, fmt.Sprintf("cube%04d", ci))
		}
		r := runCube(prog, spkgs[0], fn, modPath, cs, &op, infos, fnsSeen, stubs, keep, int64(ci))
		o.Runs = append(o.Runs, r)
	}
	for f := range fnsSeen {
		o.Funcs[f] = ""
	}
	for f := range infos {
		if f.Syntax() != nil {
			s, e := prog.Fset.Position(f.Syntax().Pos()), prog.Fset.Position(f.Syntax().End())
			if b, err := readMaybeOverlay(overlay, s.Filename); err == nil && e.Offset <= len(b) && s.Offset <= e.Offset {
				h := sha256.Sum256(b[s.Offset:e.Offset])
				o.Funcs[f.String()] = fmt.Sprintf("%s:%d-%d sha256:%x", strings.TrimPrefix(s.Filename, *repo+"/"), s.Line, e.Line, h[:6])
			}
		}
	}
	for s := range stubs {
		o.Stubs = append(o.Stubs, s)
	}
	sort.Strings(o.Stubs)
	o.Status = "ok"
	writeOutput(o, *out)
}

func runCube(prog *ssa.Program, pkg *ssa.Package, fn *ssa.Function, modPath string, consts map[string]int64, op *options,
	infos map[*ssa.Function]*fnInfo, fnsSeen map[string]bool, stubs map[string]bool, keep string, cubeIdx int64) *RunResult {
	res := &RunResult{Consts: consts}
	allocShared = false
	ex := &Exec{prog: prog, modPath: modPath, loopBound: op.loopBound, depthMax: op.depthMax,
		infos: infos, globals: map[*ssa.Global]*Obj{},
		sizes: &types.StdSizes{WordSize: 8, MaxAlign: 8}, fnsSeen: fnsSeen, consts: consts,
		ndCount: map[string]int{}, stubsUsed: stubs, inexact: map[string]int{},
		decideBranches: op.decide, fixedOrder: op.mapOrder == "fixed", flipOrder: op.mapOrder == "flip", maxTerms: op.maxTerms, trace: op.traceQ != "", pruneMs: op.pruneMs,
		deadline: time.Now().Add(time.Duration(op.encTimeout) * time.Second)}
	if op.prof {
		ex.profile = map[string]*[3]int64{}
	}
	t1 := time.Now()
	func() {
		defer func() {
			if r := recover(); r != nil {
				if u, ok := r.(unsupported); ok {
					res.Status = "unsupported"
					res.Message = u.msg
					return
				}
				res.Status = "error"
				res.Message = fmt.Sprintf("%v\n%s", r, debug.Stack())
			}
		}()
		if initFn := pkg.Func("init"); initFn != nil {
			root := &Frame{fn: initFn, panicked: FF}
			allocShared = true
			ex.callFn(root, initFn, nil, nil, TT)
			allocShared = false
		}
		ex.stackDepth = 0
		ex.call(fn, nil, nil, TT, nil)
	}()
	res.EncodeSecs = time.Since(t1).Seconds()
	if dbg := os.Getenv("GOSMT_DEBUG_TT"); dbg != "" {
		for _, q := range ex.queries {
			if q.kind == "assert" && q.cond == TT {
				f, _ := os.OpenFile(dbg, os.O_APPEND|os.O_CREATE|os.O_WRONLY, 0o644)
				fmt.Fprintf(f, "TT-ASSERT %s cube=%v\n", q.label, consts)
				if ex.sol != nil {
					fmt.Fprintf(f, "  solver: checks=%d unsat=%d unknown=%d hits=%d restarts=%d dead=%v models=%d\n", ex.sol.checks, ex.sol.unsat, ex.sol.unknown, ex.sol.hits, ex.sol.restarts, ex.sol.dead, len(ex.sol.models))
					for g, v := range ex.sol.cache {
						if !v {
							fmt.Fprintf(f, "  unsat-cached: %s\n", dumpTerm(g, 6))
						}
					}
				}
				for _, o := range ex.observes {
					if t, ok := o.v.(*T); ok && (o.Label == "x" || o.Label == "y") {
						fmt.Fprintf(f, "  obs %s = %s\n", o.Label, dumpTerm(t, 5))
					}
				}
				f.Close()
				break
			}
		}
	}
	if ex.profile != nil {
		type pe struct {
			f string
			v [3]int64
		}
		var l []pe
		for f, v := range ex.profile {
			l = append(l, pe{f, *v})
		}
		sort.Slice(l, func(i, j int) bool { return l[i].v[2] > l[j].v[2] })
		for i, e := range l {
			if i < 25 {
				fmt.Fprintf(os.Stderr, "%10d terms %6d calls %8.2fs  %s\n", e.v[0], e.v[1], float64(e.v[2])/1e9, e.f)
			}
		}
	}
	res.Blocks, res.Edges, res.Calls, res.Terms, res.Objects = ex.nblocks, ex.nedges, ex.ncalls, nterms, nobj
	res.Vars, res.Assumes, res.Pruned = len(vars), len(ex.assumes), ex.pruned
	res.Nondets = ex.nondets
	res.Inexact = ex.inexact
	res.CheckPanic = ex.checkPanics
	if ex.sol != nil {
		res.PruneChk = ex.sol.checks
		res.PruneSecs = ex.sol.spent.Seconds()
		res.PruneHits = ex.sol.hits
		ex.sol.close()
		ex.sol = nil
	}
	if res.Status != "" {
		fmt.Fprintf(os.Stderr, "gosmt: %s: %s\n", res.Status, res.Message)
		return res
	}
	res.Status = "ok"

	type key struct{ k, l string }
	grouped := map[key]*T{}
	var order []key
	for _, q := range ex.queries {
		k := key{q.kind, q.label}
		if _, ok := grouped[k]; !ok {
			grouped[k] = FF
			order = append(order, k)
		}
		grouped[k] = Or(grouped[k], q.cond)
	}
	var qs []Query
	for _, k := range order {
		qs = append(qs, Query{k.k, k.l, grouped[k]})
	}
	dir := keep
	if dir == "" {
		dir, _ = os.MkdirTemp("", "gosmt")
		defer os.RemoveAll(dir)
	} else {
		os.MkdirAll(dir, 0o755)
	}
	t2 := time.Now()
	all := solveQueries(ex, qs, dir, time.Duration(op.qTimeout)*time.Second, op.workers, op.solver, op.cross, op.oneshot)
	res.SolveSecs = time.Since(t2).Seconds()
	res.NQueries = len(all)
	if op.keepSat != "" {
		for i := range all {
			if all[i].Kind != "reach" && all[i].Verdict == "sat" && all[i].File != "" {
				os.MkdirAll(op.keepSat, 0o755)
				if b, err := os.ReadFile(all[i].File); err == nil {
					h := sha256.Sum256([]byte(fmt.Sprint(consts)))
					os.WriteFile(filepath.Join(op.keepSat, fmt.Sprintf("%x-%s", h[:4], filepath.Base(all[i].File))), b, 0o644)
				}
			}
		}
	}
	for i := range all {
		if keep == "" {
			all[i].File = ""
		}
		if all[i].Trivial {
			res.NTrivial++
		}
		if !all[i].Trivial || all[i].Verdict != "unsat" || all[i].Kind == "reach" {
			res.Queries = append(res.Queries, all[i])
		}
	}
	if op.traceQ != "" {
		for _, q := range all {
			if q.Label == op.traceQ && q.Verdict == "sat" {
				ev := newEvaluator(q.Model)
				for _, b := range ex.blockLog {
					if ev.b(b.g) {
						fmt.Fprintf(os.Stderr, "%s%s #%d\n", strings.Repeat(" ", b.depth), b.fn, b.block)
					}
				}
			}
		}
	}
	if op.validate > 0 {
		res.Samples = validationSamples(ex, op.validate, op.seed+cubeIdx, dir, op)
	}
	return res
}

func readMaybeOverlay(ov map[string][]byte, name string) ([]byte, error) {
	if b, ok := ov[name]; ok {
		return b, nil
	}
	return os.ReadFile(name)
}
