package main

// SMT-LIB2 emission. Shared nodes are emitted as declare-const + defining equality (never
// define-fun: z3 inlines macros and the DAG becomes a tree).

import (
	"fmt"
	"math/big"
	"strings"
)

type printer struct {
	sb      *strings.Builder
	defined map[*T]bool
	cvc5    bool
}

func newPrinter() *printer {
	return &printer{sb: &strings.Builder{}, defined: map[*T]bool{}}
}

func intLit(k int64) string {
	if k < 0 {
		return fmt.Sprintf("(- %d)", uint64(-(k+1))+1)
	}
	return fmt.Sprintf("%d", k)
}
func ratLit(r *big.Rat) string {
	neg := r.Sign() < 0
	a := new(big.Rat).Abs(r)
	var s string
	if a.IsInt() {
		s = a.Num().String() + ".0"
	} else {
		s = fmt.Sprintf("(/ %s.0 %s.0)", a.Num().String(), a.Denom().String())
	}
	if neg {
		return "(- " + s + ")"
	}
	return s
}
func strLit(s string) string {
	var sb strings.Builder
	sb.WriteByte('"')
	for _, c := range s {
		switch {
		case c == '"':
			sb.WriteString(`""`)
		case c < 32 || c > 126 || c == '\\':
			fmt.Fprintf(&sb, `\u{%x}`, c)
		default:
			sb.WriteRune(c)
		}
	}
	sb.WriteByte('"')
	return sb.String()
}

func (p *printer) leaf(t *T) (string, bool) {
	switch t.op {
	case "true", "false":
		return t.op, true
	case "const":
		switch t.sort {
		case SInt:
			return intLit(t.k), true
		case SReal:
			return ratLit(t.r), true
		case SStr:
			return strLit(t.name), true
		case SBV:
			return fmt.Sprintf("(_ bv%d 64)", t.u), true
		}
	case "var":
		return t.name, true
	case "pow2_64":
		return "18446744073709551616", true
	case "posinf":
		return "vh_INF", true
	case "neginf":
		return "(- vh_INF)", true
	}
	return "", false
}

func (p *printer) ref(t *T) string {
	if s, ok := p.leaf(t); ok {
		return s
	}
	p.define(t)
	return fmt.Sprintf("n%d", t.id)
}

func (p *printer) define(t *T) {
	if p.defined[t] {
		return
	}
	type fr struct {
		t *T
		i int
	}
	st := []fr{{t, 0}}
	for len(st) > 0 {
		f := &st[len(st)-1]
		if f.i < len(f.t.a) {
			c := f.t.a[f.i]
			f.i++
			if !p.defined[c] {
				if _, ok := p.leaf(c); !ok {
					st = append(st, fr{c, 0})
				}
			}
			continue
		}
		n := f.t
		st = st[:len(st)-1]
		if p.defined[n] {
			continue
		}
		p.defined[n] = true
		op := n.op
		switch op {
		case "int2bv":
			op = "(_ int2bv 64)"
		case "bv2int":
			if p.cvc5 {
				op = "bv2nat"
			}
		case "-":
			// unary or binary minus: same symbol
		case "/", "div", "mod":
		}
		fmt.Fprintf(p.sb, "(declare-const n%d %s)\n(assert (= n%d (%s", n.id, n.sort, n.id, op)
		for _, c := range n.a {
			p.sb.WriteByte(' ')
			s, ok := p.leaf(c)
			if !ok {
				s = fmt.Sprintf("n%d", c.id)
			}
			p.sb.WriteString(s)
		}
		p.sb.WriteString(")))\n")
	}
}

// declVars emits declarations (and range assertions) for vars[from:]; returns new count.
func (p *printer) declVars(from int) int {
	for ; from < len(vars); from++ {
		v := vars[from]
		fmt.Fprintf(p.sb, "(declare-const %s %s)\n", v.name, v.sort)
		if v.sort == SInt {
			if v.lo > NEG {
				fmt.Fprintf(p.sb, "(assert (>= %s %s))\n", v.name, intLit(v.lo))
			}
			if v.hi < POS {
				fmt.Fprintf(p.sb, "(assert (<= %s %s))\n", v.name, intLit(v.hi))
			}
		}
	}
	return from
}

const smtPrelude = "(declare-const vh_INF Real)\n(assert (>= vh_INF 1267650600228229401496703205376.0))\n"

// ---- tiny s-expression reader for (get-value ...) answers ----

type sx struct {
	atom string
	list []*sx
	isl  bool
}

func parseSx(s string) (*sx, string) {
	s = strings.TrimLeft(s, " \t\r\n")
	if s == "" {
		return nil, ""
	}
	if s[0] == '(' {
		s = s[1:]
		n := &sx{isl: true}
		for {
			s = strings.TrimLeft(s, " \t\r\n")
			if s == "" {
				return n, ""
			}
			if s[0] == ')' {
				return n, s[1:]
			}
			var c *sx
			c, s = parseSx(s)
			if c == nil {
				return n, s
			}
			n.list = append(n.list, c)
		}
	}
	if s[0] == '"' {
		i := 1
		var sb strings.Builder
		for i < len(s) {
			if s[i] == '"' {
				if i+1 < len(s) && s[i+1] == '"' {
					sb.WriteByte('"')
					i += 2
					continue
				}
				break
			}
			sb.WriteByte(s[i])
			i++
		}
		return &sx{atom: "\"" + sb.String()}, s[min(i+1, len(s)):]
	}
	i := 0
	for i < len(s) && !strings.ContainsRune(" \t\r\n()", rune(s[i])) {
		i++
	}
	return &sx{atom: s[:i]}, s[i:]
}

func sxRat(n *sx) *big.Rat {
	if !n.isl {
		r, ok := new(big.Rat).SetString(strings.TrimSuffix(n.atom, "?"))
		if !ok {
			return nil
		}
		return r
	}
	if len(n.list) == 0 {
		return nil
	}
	switch n.list[0].atom {
	case "-":
		if len(n.list) == 2 {
			r := sxRat(n.list[1])
			if r == nil {
				return nil
			}
			return r.Neg(r)
		}
		if len(n.list) == 3 {
			a, b := sxRat(n.list[1]), sxRat(n.list[2])
			if a == nil || b == nil {
				return nil
			}
			return a.Sub(a, b)
		}
	case "/":
		a, b := sxRat(n.list[1]), sxRat(n.list[2])
		if a == nil || b == nil || b.Sign() == 0 {
			return nil
		}
		return a.Quo(a, b)
	case "to_real":
		return sxRat(n.list[1])
	}
	return nil
}

// unescape z3/cvc5 string literal escapes \u{..}
func smtUnescape(s string) string {
	var sb strings.Builder
	for i := 0; i < len(s); i++ {
		if s[i] == '\\' && i+2 < len(s) && s[i+1] == 'u' && s[i+2] == '{' {
			j := strings.IndexByte(s[i:], '}')
			if j > 0 {
				var c int
				fmt.Sscanf(s[i+3:i+j], "%x", &c)
				sb.WriteRune(rune(c))
				i += j
				continue
			}
		}
		if s[i] == '\\' && i+5 < len(s) && s[i+1] == 'x' {
			var c int
			fmt.Sscanf(s[i+2:i+4], "%x", &c)
			sb.WriteByte(byte(c))
			i += 3
			continue
		}
		sb.WriteByte(s[i])
	}
	return sb.String()
}

// parseModel turns the text of a (get-value (...)) answer into name -> printable value
func parseModel(text string) map[string]string {
	m := map[string]string{}
	n, _ := parseSx(text)
	if n == nil || !n.isl {
		return m
	}
	for _, pr := range n.list {
		if !pr.isl || len(pr.list) != 2 {
			continue
		}
		name := pr.list[0].atom
		v := pr.list[1]
		switch {
		case !v.isl && (v.atom == "true" || v.atom == "false"):
			m[name] = v.atom
		case !v.isl && strings.HasPrefix(v.atom, "\""):
			m[name] = "s:" + smtUnescape(v.atom[1:])
		case !v.isl && strings.HasPrefix(v.atom, "#x"):
			var u uint64
			fmt.Sscanf(v.atom[2:], "%x", &u)
			m[name] = fmt.Sprintf("%d", u)
		default:
			if r := sxRat(v); r != nil {
				m[name] = r.RatString()
			}
		}
	}
	return m
}
