package main

// Concrete evaluation of terms under a solver model (debugging aid and counterexample trace
// extraction): evalT returns *big.Rat for Int/Real, bool for Bool, string for Str, uint64 for BV.

import (
	"fmt"
	"math/big"
	"strings"
)

type Model map[string]string

type evaluator struct {
	m     Model
	cache map[*T]any
}

func newEvaluator(m Model) *evaluator { return &evaluator{m: m, cache: map[*T]any{}} }

func (e *evaluator) rat(t *T) *big.Rat { return e.eval(t).(*big.Rat) }
func (e *evaluator) b(t *T) bool       { return e.eval(t).(bool) }

func (e *evaluator) eval(t *T) any {
	if v, ok := e.cache[t]; ok {
		return v
	}
	v := e.eval0(t)
	e.cache[t] = v
	return v
}

func floorRat(r *big.Rat) *big.Rat {
	q := new(big.Int)
	m := new(big.Int)
	q.DivMod(r.Num(), r.Denom(), m)
	return new(big.Rat).SetInt(q)
}

func (e *evaluator) eval0(t *T) any {
	switch t.op {
	case "true":
		return true
	case "false":
		return false
	case "const":
		switch t.sort {
		case SInt:
			return new(big.Rat).SetInt64(t.k)
		case SReal:
			return t.r
		case SStr:
			return t.name
		case SBV:
			return t.u
		}
	case "var":
		s, ok := e.m[t.name]
		switch t.sort {
		case SBool:
			return ok && s == "true"
		case SStr:
			return strings.TrimPrefix(s, "s:")
		case SBV:
			var u uint64
			fmt.Sscan(s, &u)
			return u
		default:
			if !ok {
				if t.sort == SInt && t.lo > 0 && t.lo > NEG {
					return new(big.Rat).SetInt64(t.lo)
				}
				if t.sort == SInt && t.hi < 0 {
					return new(big.Rat).SetInt64(t.hi)
				}
				return new(big.Rat)
			}
			r, _ := new(big.Rat).SetString(s)
			return r
		}
	case "posinf":
		return new(big.Rat).SetFrac(new(big.Int).Lsh(big.NewInt(1), 100), big.NewInt(1))
	case "neginf":
		return new(big.Rat).SetFrac(new(big.Int).Neg(new(big.Int).Lsh(big.NewInt(1), 100)), big.NewInt(1))
	case "pow2_64":
		return new(big.Rat).SetFrac(new(big.Int).Lsh(big.NewInt(1), 64), big.NewInt(1))
	case "not":
		return !e.b(t.a[0])
	case "and":
		for _, x := range t.a {
			if !e.b(x) {
				return false
			}
		}
		return true
	case "or":
		for _, x := range t.a {
			if e.b(x) {
				return true
			}
		}
		return false
	case "ite":
		if e.b(t.a[0]) {
			return e.eval(t.a[1])
		}
		return e.eval(t.a[2])
	case "=":
		x, y := e.eval(t.a[0]), e.eval(t.a[1])
		switch a := x.(type) {
		case *big.Rat:
			return a.Cmp(y.(*big.Rat)) == 0
		default:
			return x == y
		}
	case "<":
		return e.rat(t.a[0]).Cmp(e.rat(t.a[1])) < 0
	case "bvult":
		return e.eval(t.a[0]).(uint64) < e.eval(t.a[1]).(uint64)
	case "str.<":
		return e.eval(t.a[0]).(string) < e.eval(t.a[1]).(string)
	case "+":
		return new(big.Rat).Add(e.rat(t.a[0]), e.rat(t.a[1]))
	case "-":
		if len(t.a) == 1 {
			return new(big.Rat).Neg(e.rat(t.a[0]))
		}
		return new(big.Rat).Sub(e.rat(t.a[0]), e.rat(t.a[1]))
	case "*":
		return new(big.Rat).Mul(e.rat(t.a[0]), e.rat(t.a[1]))
	case "/":
		d := e.rat(t.a[1])
		if d.Sign() == 0 {
			return new(big.Rat)
		}
		return new(big.Rat).Quo(e.rat(t.a[0]), d)
	case "div":
		d := e.rat(t.a[1])
		if d.Sign() == 0 {
			return new(big.Rat)
		}
		q := floorRat(new(big.Rat).Quo(e.rat(t.a[0]), d))
		if d.Sign() < 0 { // SMT div: remainder non-negative
			x := e.rat(t.a[0])
			r := new(big.Rat).Sub(x, new(big.Rat).Mul(q, d))
			if r.Sign() < 0 {
				q.Add(q, big.NewRat(1, 1))
			}
		}
		return q
	case "mod":
		x, d := e.rat(t.a[0]), e.rat(t.a[1])
		if d.Sign() == 0 {
			return x
		}
		ad := new(big.Rat).Abs(d)
		q := floorRat(new(big.Rat).Quo(x, ad))
		return new(big.Rat).Sub(x, new(big.Rat).Mul(q, ad))
	case "to_real":
		return e.rat(t.a[0])
	case "to_int":
		return floorRat(e.rat(t.a[0]))
	case "str.++":
		return e.eval(t.a[0]).(string) + e.eval(t.a[1]).(string)
	case "str.from_int":
		r := e.rat(t.a[0])
		if r.Sign() < 0 {
			return ""
		}
		return r.Num().String()
	case "str.len":
		return new(big.Rat).SetInt64(int64(len(e.eval(t.a[0]).(string))))
	case "int2bv":
		r := e.rat(t.a[0])
		m := new(big.Int).Mod(r.Num(), new(big.Int).Lsh(big.NewInt(1), 64))
		return m.Uint64()
	case "bv2int":
		return new(big.Rat).SetInt(new(big.Int).SetUint64(e.eval(t.a[0]).(uint64)))
	case "bvor":
		return e.eval(t.a[0]).(uint64) | e.eval(t.a[1]).(uint64)
	case "bvand":
		return e.eval(t.a[0]).(uint64) & e.eval(t.a[1]).(uint64)
	case "bvxor":
		return e.eval(t.a[0]).(uint64) ^ e.eval(t.a[1]).(uint64)
	case "bvadd":
		return e.eval(t.a[0]).(uint64) + e.eval(t.a[1]).(uint64)
	case "bvsub":
		return e.eval(t.a[0]).(uint64) - e.eval(t.a[1]).(uint64)
	case "bvmul":
		return e.eval(t.a[0]).(uint64) * e.eval(t.a[1]).(uint64)
	case "bvshl":
		s := e.eval(t.a[1]).(uint64)
		if s >= 64 {
			return uint64(0)
		}
		return e.eval(t.a[0]).(uint64) << s
	case "bvlshr":
		s := e.eval(t.a[1]).(uint64)
		if s >= 64 {
			return uint64(0)
		}
		return e.eval(t.a[0]).(uint64) >> s
	}
	panic("evaluator: unsupported op " + t.op)
}
