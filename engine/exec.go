package main

// Predicated (if-converted) symbolic execution of go/ssa in weak topological order with one
// guarded store. See DESIGN.md §2.2.

import (
	"fmt"
	"go/constant"
	"go/token"
	"go/types"
	"math/big"
	"sort"
	"strings"
	"time"

	"golang.org/x/tools/go/ssa"
)

type wtoElem struct {
	b    *ssa.BasicBlock
	comp []wtoElem
	loop bool
}

func computeWTO(fn *ssa.Function) []wtoElem {
	n := len(fn.Blocks)
	dfn := make([]int, n)
	num := 0
	var stack []int
	const INF = 1 << 30
	var visit func(v int, part *[]wtoElem) int
	var component func(v int) wtoElem
	component = func(v int) wtoElem {
		var part []wtoElem
		for _, s := range fn.Blocks[v].Succs {
			if dfn[s.Index] == 0 {
				visit(s.Index, &part)
			}
		}
		rev(part)
		return wtoElem{b: fn.Blocks[v], comp: part, loop: true}
	}
	visit = func(v int, part *[]wtoElem) int {
		stack = append(stack, v)
		num++
		dfn[v] = num
		head := dfn[v]
		loop := false
		for _, s := range fn.Blocks[v].Succs {
			var m int
			if dfn[s.Index] == 0 {
				m = visit(s.Index, part)
			} else {
				m = dfn[s.Index]
			}
			if m <= head {
				head = m
				loop = true
			}
		}
		if head == dfn[v] {
			dfn[v] = INF
			el := stack[len(stack)-1]
			stack = stack[:len(stack)-1]
			if loop {
				for el != v {
					dfn[el] = 0
					el = stack[len(stack)-1]
					stack = stack[:len(stack)-1]
				}
				*part = append(*part, component(v))
			} else {
				*part = append(*part, wtoElem{b: fn.Blocks[v]})
			}
		}
		return head
	}
	var part []wtoElem
	visit(0, &part)
	rev(part)
	return part
}
func rev(p []wtoElem) {
	for i, j := 0, len(p)-1; i < j; i, j = i+1, j-1 {
		p[i], p[j] = p[j], p[i]
	}
}

type fnInfo struct {
	wto []wtoElem
	idx map[ssa.Value]int
	n   int
}

type Query struct {
	kind  string // assert | reach | unwind | panic | known
	label string
	cond  *T
}

type NondetRec struct {
	Name string  // harness-level name
	Var  string  // SMT variable
	Kind string  // int | bool | real | str | pick | rand
	Lo   float64 `json:",omitempty"`
	Hi   float64 `json:",omitempty"`
}

type Exec struct {
	instTerms []*T // terms registered by vhInstantiate (instantiation points of callee summaries)
	prog        *ssa.Program
	modPath     string
	assumes     []*T
	queries     []Query
	loopBound   int
	depthMax    int
	infos       map[*ssa.Function]*fnInfo
	globals     map[*ssa.Global]*Obj
	nblocks     int
	nedges      int
	ncalls      int
	nvar        int
	sizes       types.Sizes
	fnsSeen     map[string]bool
	sol         *Solver
	pruned      int
	consts      map[string]int64
	checkPanics bool
	suppress    int
	nondets     []NondetRec
	ndCount     map[string]int
	deadline    time.Time
	stubsUsed   map[string]bool
	inexact     map[string]int
	stackDepth  int
	observes    []Observe
	trace       bool
	maxTerms    int
	pruneMs     int
	decideBranches bool
	fixedOrder  bool
	flipOrder   bool // map ranges visit the keys in insertion order or in reverse insertion order (one solver-chosen boolean per range)
	nconc       int
	checkShared bool
	recoverStack []*recoverCtx
	blockLog    []blockRec
	profile     map[string]*[3]int64 // fn -> self terms, calls, self ns
	profStack   []profRec
}

type profRec struct {
	t0    int
	child int
	w0    time.Time
	wchild time.Duration
}

type blockRec struct {
	fn    string
	block int
	g     *T
	depth int
}

type Observe struct {
	Label string
	g     *T
	v     Value
}

type edgeIn struct {
	g    *T
	regs []Value
	phi  []Value
}
type retRec struct {
	g *T
	v Value
}
type recoverCtx struct {
	panicking *T // guard under which the deferring frame is panicking
	recovered *T // guard under which recover() has been called while panicking
}

type deferRec struct {
	g    *T
	fv   Value
	args []Value
	cc   *ssa.CallCommon
}
type Frame struct {
	fn       *ssa.Function
	info     *fnInfo
	env      []Value
	inbox    [][]edgeIn
	rets     []retRec
	regs     []Value
	g        *T
	caller   *Frame
	panicked *T
	defers   []deferRec
}

func (ex *Exec) info(fn *ssa.Function) *fnInfo {
	if fi, ok := ex.infos[fn]; ok {
		return fi
	}
	fi := &fnInfo{wto: computeWTO(fn), idx: map[ssa.Value]int{}}
	for _, p := range fn.Params {
		fi.idx[p] = fi.n
		fi.n++
	}
	for _, b := range fn.Blocks {
		for _, ins := range b.Instrs {
			if v, ok := ins.(ssa.Value); ok {
				fi.idx[v] = fi.n
				fi.n++
			}
		}
	}
	ex.infos[fn] = fi
	return fi
}

func site(ins ssa.Instruction) string {
	p := ins.Parent().Prog.Fset.Position(ins.Pos())
	f := p.Filename
	if i := strings.Index(f, "/repo/"); i >= 0 {
		f = f[i+6:]
	} else if i := strings.LastIndex(f, "/src/"); i >= 0 {
		f = f[i+5:]
	}
	return fmt.Sprintf("%s:%d(%s)", f, p.Line, ins.Parent().Name())
}

func (ex *Exec) addPanic(fr *Frame, g *T, what string) {
	if g == FF {
		return
	}
	if ex.checkPanics && ex.suppress == 0 {
		ex.queries = append(ex.queries, Query{"panic", what, g})
	}
	fr.panicked = Or(fr.panicked, g)
	fr.g = And(fr.g, Not(g))
}

func (ex *Exec) checkDeadline() {
	if !ex.deadline.IsZero() && time.Now().After(ex.deadline) {
		panic(unsupported{"encode-timeout"})
	}
	if nterms > ex.maxTerms {
		panic(unsupported{fmt.Sprintf("encode-too-large (%d terms)", nterms)})
	}
}

// call executes fn under guard g; returns the merged result and the guard under which it panicked.
func (ex *Exec) call(fn *ssa.Function, args []Value, env []Value, g *T, caller *Frame) (Value, *T) {
	if g == FF {
		return zeroRes(fn), FF
	}
	if fn.Blocks == nil {
		unsup("call: no body for %s", fn.String())
	}
	ex.checkDeadline()
	depth := 0
	for f := caller; f != nil; f = f.caller {
		if f.fn == fn {
			depth++
		}
	}
	if depth > ex.depthMax || ex.stackDepth > 6000 {
		ex.queries = append(ex.queries, Query{"unwind", "recursion " + fn.Name(), g})
		return zeroRes(fn), g // treat as diverging: nothing continues under g
	}
	if (depth >= 1 || ex.stackDepth >= 2) && ex.infeasible(g) {
		ex.pruned++
		if ex.trace {
			ex.blockLog = append(ex.blockLog, blockRec{"PRUNED-CALL " + fn.String(), -1, g, ex.stackDepth})
		}
		return zeroRes(fn), FF
	}
	ex.ncalls++
	ex.stackDepth++
	defer func() { ex.stackDepth-- }()
	if ex.profile != nil {
		ex.profStack = append(ex.profStack, profRec{t0: nterms, w0: time.Now()})
		defer func() {
			pr := ex.profStack[len(ex.profStack)-1]
			ex.profStack = ex.profStack[:len(ex.profStack)-1]
			total := nterms - pr.t0
			wt := time.Since(pr.w0)
			p := ex.profile[fn.String()]
			if p == nil {
				p = &[3]int64{}
				ex.profile[fn.String()] = p
			}
			p[0] += int64(total - pr.child)
			p[1]++
			p[2] += int64(wt - pr.wchild)
			if n := len(ex.profStack); n > 0 {
				ex.profStack[n-1].child += total
				ex.profStack[n-1].wchild += wt
			}
		}()
	}
	ex.fnsSeen[fn.String()] = true
	fi := ex.info(fn)
	fr := &Frame{fn: fn, info: fi, env: env, inbox: make([][]edgeIn, len(fn.Blocks)), caller: caller, panicked: FF}
	regs := make([]Value, fi.n)
	for i, p := range fn.Params {
		regs[fi.idx[p]] = args[i]
	}
	fr.inbox[0] = []edgeIn{{g: g, regs: regs}}
	ex.execElems(fr, fi.wto)
	// deferred calls run under their registration guard (covers normal and panicking exits);
	// recover() inside them is non-nil exactly under the guard under which this frame is panicking
	if len(fr.defers) > 0 {
		ctx := &recoverCtx{panicking: fr.panicked, recovered: FF}
		ex.recoverStack = append(ex.recoverStack, ctx)
		deferredPanic := FF
		for i := len(fr.defers) - 1; i >= 0; i-- {
			d := fr.defers[i]
			ex.suppress++
			_, p := ex.dispatch(fr, d.cc, d.fv, d.args, d.g)
			ex.suppress--
			deferredPanic = Or(deferredPanic, p)
		}
		ex.recoverStack = ex.recoverStack[:len(ex.recoverStack)-1]
		fr.panicked = Or(And(fr.panicked, Not(ctx.recovered)), deferredPanic)
	}
	var res Value
	for i, r := range fr.rets {
		if i == 0 {
			res = r.v
		} else {
			res = merge(r.g, r.v, res)
		}
	}
	if res == nil {
		res = zeroRes(fn)
	}
	return res, fr.panicked
}

func zeroRes(fn *ssa.Function) Value {
	res := fn.Signature.Results()
	switch res.Len() {
	case 0:
		return nil
	case 1:
		return zero(res.At(0).Type())
	}
	t := make(TupleV, res.Len())
	for i := range t {
		t[i] = zero(res.At(i).Type())
	}
	return t
}

func (ex *Exec) execElems(fr *Frame, elems []wtoElem) {
	for _, el := range elems {
		if !el.loop {
			ex.execBlock(fr, el.b)
			continue
		}
		for it := 0; ; it++ {
			in := fr.inbox[el.b.Index]
			g := FF
			for _, e := range in {
				g = Or(g, e.g)
			}
			if g == FF {
				fr.inbox[el.b.Index] = nil
				break
			}
			if it >= 1 && ex.infeasible(g) {
				ex.pruned++
				if ex.trace {
					ex.blockLog = append(ex.blockLog, blockRec{"PRUNED-LOOP " + fr.fn.String(), el.b.Index, g, ex.stackDepth})
				}
				fr.inbox[el.b.Index] = nil
				break
			}
			if it >= ex.loopBound {
				ex.queries = append(ex.queries, Query{"unwind", fmt.Sprintf("loop %s#%d", fr.fn.Name(), el.b.Index), g})
				fr.panicked = Or(fr.panicked, g) // diverges: nothing continues under g
				fr.inbox[el.b.Index] = nil
				break
			}
			ex.execBlock(fr, el.b)
			ex.execElems(fr, el.comp)
		}
	}
}

func (ex *Exec) execBlock(fr *Frame, b *ssa.BasicBlock) {
	in := fr.inbox[b.Index]
	fr.inbox[b.Index] = nil
	var live []edgeIn
	g := FF
	for _, e := range in {
		if e.g != FF {
			live = append(live, e)
			g = Or(g, e.g)
		}
	}
	if g == FF {
		return
	}
	ex.nblocks++
	if ex.nblocks%512 == 0 {
		ex.checkDeadline()
	}
	var regs []Value
	if len(live) == 1 {
		regs = live[0].regs
	} else {
		regs = make([]Value, fr.info.n)
		for k := range regs {
			var res Value
			first := true
			for _, e := range live {
				v := e.regs[k]
				if v == nil {
					continue
				}
				if first {
					res = v
					first = false
				} else if !sameV(res, v) {
					res = merge(e.g, v, res)
				}
			}
			regs[k] = res
		}
	}
	fr.regs = regs
	fr.g = g
	if ex.trace {
		ex.blockLog = append(ex.blockLog, blockRec{fr.fn.String(), b.Index, g, ex.stackDepth})
	}
	np := 0
	for _, ins := range b.Instrs {
		phi, ok := ins.(*ssa.Phi)
		if !ok {
			break
		}
		var res Value
		for i, e := range live {
			if i == 0 {
				res = e.phi[np]
			} else if !sameV(res, e.phi[np]) {
				res = merge(e.g, e.phi[np], res)
			}
		}
		regs[fr.info.idx[phi]] = res
		np++
	}
	for _, ins := range b.Instrs[np:] {
		if fr.g == FF {
			// everything below is dead (e.g. after an unconditional panic); still need no successors
			return
		}
		ex.step(fr, ins)
	}
}

func (ex *Exec) pushEdge(fr *Frame, from, to *ssa.BasicBlock, g *T, move bool) {
	if g == FF {
		return
	}
	ex.nedges++
	idx := -1
	for j, p := range to.Preds {
		if p == from {
			idx = j
			break
		}
	}
	var phis []Value
	for _, ins := range to.Instrs {
		phi, ok := ins.(*ssa.Phi)
		if !ok {
			break
		}
		phis = append(phis, ex.eval(fr, phi.Edges[idx]))
	}
	regs := fr.regs
	if !move {
		regs = append([]Value(nil), fr.regs...)
	}
	fr.inbox[to.Index] = append(fr.inbox[to.Index], edgeIn{g: g, regs: regs, phi: phis})
}

func ratOfConst(c constant.Value) *big.Rat {
	c = constant.ToFloat(c)
	if f, exact := constant.Float64Val(c); exact || true {
		r := new(big.Rat)
		if r.SetFloat64(f) != nil {
			return r
		}
	}
	unsup("non-finite float constant")
	return nil
}

func (ex *Exec) constVal(c *ssa.Const) Value {
	if c.Value == nil {
		return zero(c.Type())
	}
	switch u := c.Type().Underlying().(type) {
	case *types.Basic:
		switch {
		case u.Info()&types.IsBoolean != 0:
			return B(constant.BoolVal(c.Value))
		case u.Kind() == types.Uint64:
			k, _ := constant.Uint64Val(constant.ToInt(c.Value))
			return BV(k)
		case u.Info()&types.IsInteger != 0:
			iv := constant.ToInt(c.Value)
			k, exact := constant.Int64Val(iv)
			if !exact {
				// uint / uintptr constants above MaxInt64
				uk, _ := constant.Uint64Val(iv)
				unsup("integer constant %d out of int64 range", uk)
			}
			return I(k)
		case u.Info()&types.IsString != 0:
			return S(constant.StringVal(c.Value))
		case u.Info()&types.IsFloat != 0:
			return R(ratOfConst(c.Value))
		}
	}
	unsup("constVal: %s", c.String())
	return nil
}

func (ex *Exec) globalObj(x *ssa.Global) *Obj {
	o, ok := ex.globals[x]
	if !ok {
		et := x.Type().(*types.Pointer).Elem()
		o = newObj(zero(et), et)
		o.name = x.String()
		o.shared = true
		ex.globals[x] = o
	}
	return o
}

func (ex *Exec) eval(fr *Frame, v ssa.Value) Value {
	switch x := v.(type) {
	case *ssa.Const:
		return ex.constVal(x)
	case *ssa.Function:
		return funcOf(x)
	case *ssa.FreeVar:
		for i, fv := range fr.fn.FreeVars {
			if fv == x {
				return fr.env[i]
			}
		}
		panic("freevar not found")
	case *ssa.Global:
		return ptrTo(ex.globalObj(x))
	case *ssa.Builtin:
		return x
	}
	i, ok := fr.info.idx[v]
	if !ok || fr.regs[i] == nil {
		panic(fmt.Sprintf("eval: undefined %s in %s", v.Name(), fr.fn))
	}
	return fr.regs[i]
}

func (ex *Exec) load(fr *Frame, p Ptr, what string) Value {
	var res Value
	first := true
	for _, c := range p.c {
		if c.obj == nil {
			ex.addPanic(fr, And(fr.g, c.g), "nil dereference "+what)
			continue
		}
		v := getPath(c.obj.v, c.path)
		if first {
			res, first = v, false
		} else {
			res = merge(c.g, v, res)
		}
	}
	return res
}

// concretize: a value that depends only on map-order picks (not on harness inputs) is often the
// same for every order (order-insensitive loops such as `for n := range set { n.Layer += d }`).
// If the pruning solver proves it constant under the current guard it is replaced by that constant,
// which keeps the heap concrete; values that really depend on the order stay symbolic.
func (ex *Exec) concretize(g *T, v Value) Value {
	if ex.fixedOrder || ex.pruneMs <= 0 {
		return v
	}
	switch x := v.(type) {
	case *T:
		if isC(x) || x.fl != 1 || (x.sort != SInt && x.sort != SBool && x.sort != SReal) {
			return v
		}
		if ex.infeasible(g) || !ex.haveSolver() {
			return v
		}
		m := ex.sol.lastModelFor(ex, g)
		if m == nil {
			return v
		}
		var c *T
		switch val := m.eval(x).(type) {
		case bool:
			c = B(val)
		case *big.Rat:
			if x.sort == SInt {
				if !val.IsInt() {
					return v
				}
				c = I(val.Num().Int64())
			} else {
				c = R(val)
			}
		default:
			return v
		}
		if ex.infeasible(And(g, Not(Eq(x, c)))) {
			ex.nconc++
			return c
		}
		return v
	case Ptr:
		if len(x.c) < 2 {
			return v
		}
		for _, pc := range x.c {
			if pc.g.fl != 1 {
				return v
			}
		}
		if ex.infeasible(g) || !ex.haveSolver() {
			return v
		}
		m := ex.sol.lastModelFor(ex, g)
		if m == nil {
			return v
		}
		for _, pc := range x.c {
			if m.b(pc.g) {
				if ex.infeasible(And(g, Not(pc.g))) {
					ex.nconc++
					return Ptr{[]PC{{TT, pc.obj, pc.path}}}
				}
				return v
			}
		}
	}
	return v
}

func (ex *Exec) store(fr *Frame, p Ptr, v Value, what string) {
	v = ex.concretize(fr.g, v)
	for _, c := range p.c {
		if c.obj == nil {
			ex.addPanic(fr, And(fr.g, c.g), "nil dereference "+what)
		}
	}
	for _, c := range p.c {
		if c.obj == nil {
			continue
		}
		ex.sharedWrite(fr, c.obj, And(fr.g, c.g), what)
		c.obj.v = setPath(c.obj.v, c.path, v, And(fr.g, c.g))
	}
}

// sharedWrite records a write to package-level (shared) state as a query (C15).
func (ex *Exec) sharedWrite(fr *Frame, o *Obj, g *T, what string) {
	if !ex.checkShared || allocShared || o == nil || !o.shared || g == FF {
		return
	}
	name := o.name
	if name == "" {
		name = fmt.Sprintf("object#%d allocated by a package initialiser", o.id)
	}
	ex.queries = append(ex.queries, Query{"assert", "no-write-to-package-level-state: " + name + " written at " + what, g})
}

func (ex *Exec) readSlice(s SliceV, idx *T) Value {
	var res Value
	first := true
	pos := Add(s.off, idx)
	for _, sc := range s.c {
		cells := sc.obj.v.(ArrayV).e
		for j := range cells {
			c := And(sc.g, Eq(pos, I(int64(j))))
			if c == FF {
				continue
			}
			if first {
				res, first = cells[j], false
			} else {
				res = merge(c, cells[j], res)
			}
		}
	}
	return res
}

var sizeClasses = []int{0, 8, 16, 24, 32, 48, 64, 80, 96, 112, 128, 144, 160, 176, 192, 208, 224, 240, 256, 288, 320, 352, 384, 416, 448, 480, 512, 576, 640, 704, 768, 896, 1024, 1152, 1280, 1408, 1536, 1792, 2048, 2304, 2688, 3072, 3200, 3456, 4096, 4864, 5376, 6144, 6528, 6784, 6912, 8192, 9472, 9728, 10240, 10880, 12288, 13568, 14336, 16384, 18432, 19072, 20480, 21760, 24576, 27264, 28672, 32768}

// growCap mirrors runtime.growslice/nextslicecap + roundupsize for the installed toolchain (go1.23).
func growCap(oldCap, newLen, es int) int {
	newcap := oldCap
	doublecap := newcap + newcap
	if newLen > doublecap {
		newcap = newLen
	} else if oldCap < 256 {
		newcap = doublecap
	} else {
		for {
			newcap += (newcap + 3*256) >> 2
			if uint(newcap) >= uint(newLen) {
				break
			}
		}
	}
	if es == 0 {
		return newcap
	}
	mem := newcap * es
	for _, c := range sizeClasses {
		if c >= mem {
			return c / es
		}
	}
	// large allocation: rounded up to page size
	const page = 8192
	mem = (mem + page - 1) / page * page
	return mem / es
}

const maxCells = 1 << 14

func (ex *Exec) doAppend(fr *Frame, s, t SliceV, elem types.Type) Value {
	g := fr.g
	if t.len.hi > 4096 || t.len.hi >= POS {
		unsup("append: unbounded source length")
	}
	tHi := int(t.len.hi)
	tv := make([]Value, tHi)
	for j := 0; j < tHi; j++ {
		tv[j] = ex.readSlice(t, I(int64(j)))
		if tv[j] == nil {
			tv[j] = zero(elem)
		}
	}
	newLen := Add(s.len, t.len)
	inplace := Le(newLen, s.cap)
	inplace = ex.decide(g, inplace)
	if tHi == 0 {
		// appending nothing: Go returns s unchanged (even when nil)
		return s
	}
	var resC []SC
	if inplace != FF {
		end := Add(s.off, s.len)
		for _, sc := range s.c {
			arr := sc.obj.v.(ArrayV)
			ncells := append([]Value(nil), arr.e...)
			changed := false
			gg := AndN(g, sc.g, inplace)
			for j := 0; j < tHi; j++ {
				gj := And(gg, Lt(I(int64(j)), t.len))
				if gj == FF {
					continue
				}
				pos := Add(end, I(int64(j)))
				for p := range ncells {
					c := And(gj, Eq(pos, I(int64(p))))
					if c == FF {
						continue
					}
					ncells[p] = merge(c, tv[j], ncells[p])
					changed = true
				}
			}
			if changed {
				ex.sharedWrite(fr, sc.obj, gg, "append")
				sc.obj.v = ArrayV{ncells}
			}
			resC = append(resC, SC{And(sc.g, inplace), sc.obj})
		}
	}
	off := s.off
	capT := s.cap
	if inplace != TT {
		es := int(ex.sizes.Sizeof(elem))
		var capTerm *T
		maxcap := 0
		if s.cap.hi >= POS || newLen.hi >= POS || s.cap.hi > maxCells || newLen.hi > maxCells {
			unsup("append: unbounded capacity/length")
		}
		for oc := max(s.cap.lo, 0); oc <= s.cap.hi; oc++ {
			for nl := max(newLen.lo, oc+1); nl <= newLen.hi; nl++ {
				c := And(Eq(s.cap, I(oc)), Eq(newLen, I(nl)))
				if c == FF {
					continue
				}
				nc := growCap(int(oc), int(nl), es)
				maxcap = max(maxcap, nc)
				if capTerm == nil {
					capTerm = I(int64(nc))
				} else {
					capTerm = Ite(c, I(int64(nc)), capTerm)
				}
			}
		}
		if capTerm == nil {
			// growth impossible by intervals although not syntactically excluded
			capTerm = s.cap
			maxcap = int(s.cap.hi)
		}
		if maxcap > maxCells {
			unsup("append: capacity %d too large", maxcap)
		}
		cells := make([]Value, maxcap)
		z := zero(elem)
		for p := range cells {
			pi := I(int64(p))
			var v Value = z
			rel := Sub(pi, s.len)
			for j := 0; j < tHi; j++ {
				c := And(Eq(rel, I(int64(j))), Lt(I(int64(j)), t.len))
				if c != FF {
					v = merge(c, tv[j], v)
				}
			}
			inS := Lt(pi, s.len)
			if inS != FF && len(s.c) > 0 {
				sv := ex.readSlice(s, pi)
				if sv != nil {
					v = merge(inS, sv, v)
				}
			}
			cells[p] = v
		}
		no := newObj(ArrayV{cells}, nil)
		resC = append(resC, SC{Not(inplace), no})
		off = Ite(inplace, s.off, I(0))
		capT = Ite(inplace, s.cap, capTerm)
	}
	var rc []SC
	for _, c := range resC {
		if c.g != FF {
			rc = append(rc, c)
		}
	}
	return SliceV{rc, off, newLen, capT}
}

// decide asks the pruning solver whether c is constant under guard g (and the assumptions so far);
// a decided condition is replaced by its value, which only drops infeasible paths.
func (ex *Exec) decide(g, c *T) *T {
	if c == TT || c == FF {
		return c
	}
	if ex.infeasible(And(g, Not(c))) {
		return TT
	}
	if ex.infeasible(And(g, c)) {
		return FF
	}
	return c
}

func (ex *Exec) haveSolver() bool {
	if ex.pruneMs <= 0 {
		return false
	}
	if ex.sol == nil {
		ex.sol = newSolver(ex.pruneMs)
		if ex.sol == nil {
			ex.pruneMs = 0
			return false
		}
	}
	return true
}

// infeasible: the pruning solver (started lazily) proves g unsatisfiable under the assumptions.
func (ex *Exec) infeasible(g *T) bool {
	if g == FF {
		return true
	}
	if g == TT || ex.pruneMs <= 0 {
		return false
	}
	if ex.sol == nil {
		ex.sol = newSolver(ex.pruneMs)
		if ex.sol == nil {
			ex.pruneMs = 0
			return false
		}
	}
	return !ex.sol.feasible(ex, g)
}

func (ex *Exec) doCopy(fr *Frame, dst, src SliceV) *T {
	n := Min(dst.len, src.len)
	if n.hi > 4096 {
		unsup("copy: unbounded length")
	}
	hi := int(n.hi)
	tv := make([]Value, hi)
	for j := 0; j < hi; j++ {
		tv[j] = ex.readSlice(src, I(int64(j)))
	}
	for _, sc := range dst.c {
		arr := sc.obj.v.(ArrayV)
		ncells := append([]Value(nil), arr.e...)
		changed := false
		for j := 0; j < hi; j++ {
			gj := AndN(fr.g, sc.g, Lt(I(int64(j)), n))
			if gj == FF || tv[j] == nil {
				continue
			}
			pos := Add(dst.off, I(int64(j)))
			for p := range ncells {
				c := And(gj, Eq(pos, I(int64(p))))
				if c == FF {
					continue
				}
				ncells[p] = merge(c, tv[j], ncells[p])
				changed = true
			}
		}
		if changed {
			sc.obj.v = ArrayV{ncells}
		}
	}
	return n
}

func (ex *Exec) set(fr *Frame, ins ssa.Instruction, v Value) {
	fr.regs[fr.info.idx[ins.(ssa.Value)]] = v
}

func (ex *Exec) mapLookup(fr *Frame, m MapV, key Value, vt types.Type) (Value, *T) {
	var res Value = zero(vt)
	ok := FF
	for _, c := range m.c {
		v, o := c.m.lookup(key)
		res = merge(c.g, v, res)
		ok = Or(ok, And(c.g, o))
	}
	return res, ok
}

func (ex *Exec) step(fr *Frame, ins ssa.Instruction) {
	g := fr.g
	switch x := ins.(type) {
	case *ssa.Alloc:
		et := x.Type().(*types.Pointer).Elem()
		ex.set(fr, ins, ptrTo(newObj(zero(et), et)))
	case *ssa.FieldAddr:
		p := ex.eval(fr, x.X).(Ptr)
		var c []PC
		for _, pc := range p.c {
			if pc.obj == nil {
				ex.addPanic(fr, And(g, pc.g), "nil dereference "+site(ins))
				continue
			}
			c = append(c, PC{pc.g, pc.obj, append(append([]int(nil), pc.path...), x.Field)})
		}
		ex.set(fr, ins, Ptr{c})
	case *ssa.Field:
		ex.set(fr, ins, ex.eval(fr, x.X).(StructV).f[x.Field])
	case *ssa.IndexAddr:
		idx := ex.intOf(ex.eval(fr, x.Index))
		switch b := ex.eval(fr, x.X).(type) {
		case SliceV:
			ex.addPanic(fr, And(g, Or(Lt(idx, I(0)), Le(b.len, idx))), "index out of range "+site(ins))
			pos := Add(b.off, idx)
			var c []PC
			for _, sc := range b.c {
				n := len(sc.obj.v.(ArrayV).e)
				for j := 0; j < n; j++ {
					gg := And(sc.g, Eq(pos, I(int64(j))))
					if gg != FF {
						c = append(c, PC{gg, sc.obj, []int{j}})
					}
				}
			}
			ex.set(fr, ins, Ptr{c})
		case Ptr:
			n := int(x.X.Type().Underlying().(*types.Pointer).Elem().Underlying().(*types.Array).Len())
			ex.addPanic(fr, And(g, Or(Lt(idx, I(0)), Le(I(int64(n)), idx))), "index out of range "+site(ins))
			var c []PC
			for _, pc := range b.c {
				if pc.obj == nil {
					ex.addPanic(fr, And(g, pc.g), "nil dereference "+site(ins))
					continue
				}
				for j := 0; j < n; j++ {
					gg := And(pc.g, Eq(idx, I(int64(j))))
					if gg != FF {
						c = append(c, PC{gg, pc.obj, append(append([]int(nil), pc.path...), j)})
					}
				}
			}
			ex.set(fr, ins, Ptr{c})
		default:
			unsup("IndexAddr on %T", b)
		}
	case *ssa.Index:
		idx := ex.intOf(ex.eval(fr, x.Index))
		switch a := ex.eval(fr, x.X).(type) {
		case ArrayV:
			ex.addPanic(fr, And(g, Or(Lt(idx, I(0)), Le(I(int64(len(a.e))), idx))), "index out of range "+site(ins))
			var res Value
			for j := range a.e {
				c := Eq(idx, I(int64(j)))
				if c == FF {
					continue
				}
				if res == nil {
					res = a.e[j]
				} else {
					res = merge(c, a.e[j], res)
				}
			}
			if res == nil {
				res = zero(x.Type())
			}
			ex.set(fr, ins, res)
		case *T:
			if a.sort == SStr && isC(a) && isC(idx) && idx.k >= 0 && int(idx.k) < len(a.name) {
				ex.set(fr, ins, I(int64(a.name[idx.k])))
			} else {
				unsup("string index on symbolic string at %s", site(ins))
			}
		default:
			unsup("Index on %T", a)
		}
	case *ssa.UnOp:
		v := ex.eval(fr, x.X)
		switch x.Op {
		case token.MUL:
			r := ex.load(fr, v.(Ptr), site(ins))
			if r == nil {
				r = zero(x.Type())
			}
			ex.set(fr, ins, r)
		case token.NOT:
			ex.set(fr, ins, Not(v.(*T)))
		case token.SUB:
			ex.set(fr, ins, Neg(v.(*T)))
		case token.XOR:
			t := v.(*T)
			if t.sort == SBV {
				ex.set(fr, ins, mk("bvnot", SBV, "", 0, t))
			} else {
				ex.set(fr, ins, Sub(Neg(t), I(1)))
			}
		default:
			unsup("unop %s", x.Op)
		}
	case *ssa.Store:
		ex.store(fr, ex.eval(fr, x.Addr).(Ptr), ex.eval(fr, x.Val), site(ins))
	case *ssa.BinOp:
		ex.set(fr, ins, ex.binop(fr, x))
	case *ssa.Phi:
		panic("phi in body")
	case *ssa.MakeClosure:
		env := make([]Value, len(x.Bindings))
		for i, b := range x.Bindings {
			env[i] = ex.eval(fr, b)
		}
		ex.set(fr, ins, FuncV{[]FC{{g: TT, fn: x.Fn.(*ssa.Function), env: env}}})
	case *ssa.MakeMap:
		mt := x.Type().Underlying().(*types.Map)
		ex.set(fr, ins, MapV{[]MC{{TT, newMap(mt.Key(), mt.Elem())}}})
	case *ssa.MakeSlice:
		l := ex.intOf(ex.eval(fr, x.Len))
		c := ex.intOf(ex.eval(fr, x.Cap))
		ex.addPanic(fr, And(g, Or(Lt(l, I(0)), Lt(c, l))), "makeslice: len out of range "+site(ins))
		if c.hi > maxCells {
			unsup("makeslice: unbounded cap at %s", site(ins))
		}
		et := x.Type().Underlying().(*types.Slice).Elem()
		cells := make([]Value, max(c.hi, 0))
		for i := range cells {
			cells[i] = zero(et)
		}
		ex.set(fr, ins, SliceV{[]SC{{TT, newObj(ArrayV{cells}, nil)}}, I(0), l, c})
	case *ssa.MakeInterface:
		ex.set(fr, ins, IfaceV{[]IC{{TT, x.X.Type(), ex.eval(fr, x.X)}}})
	case *ssa.ChangeType:
		ex.set(fr, ins, ex.eval(fr, x.X))
	case *ssa.Convert:
		ex.set(fr, ins, ex.convert(fr, x))
	case *ssa.ChangeInterface:
		ex.set(fr, ins, ex.eval(fr, x.X))
	case *ssa.TypeAssert:
		ex.typeAssert(fr, x)
	case *ssa.Lookup:
		switch m := ex.eval(fr, x.X).(type) {
		case MapV:
			mt := x.X.Type().Underlying().(*types.Map)
			v, ok := ex.mapLookup(fr, m, ex.eval(fr, x.Index), mt.Elem())
			if x.CommaOk {
				ex.set(fr, ins, TupleV{v, ok})
			} else {
				ex.set(fr, ins, v)
			}
		case *T:
			idx := ex.intOf(ex.eval(fr, x.Index))
			if m.sort == SStr && isC(m) && isC(idx) && idx.k >= 0 && int(idx.k) < len(m.name) {
				ex.set(fr, ins, I(int64(m.name[idx.k])))
			} else {
				unsup("string index at %s", site(ins))
			}
		}
	case *ssa.MapUpdate:
		m := ex.eval(fr, x.Map).(MapV)
		isNil := TT
		for _, c := range m.c {
			isNil = And(isNil, Not(c.g))
		}
		ex.addPanic(fr, And(g, isNil), "assignment to entry in nil map "+site(ins))
		k, v := ex.eval(fr, x.Key), ex.eval(fr, x.Value)
		k, v = ex.concretize(fr.g, k), ex.concretize(fr.g, v)
		for _, c := range m.c {
			if c.m.shared && ex.checkShared && !allocShared {
				ex.queries = append(ex.queries, Query{"assert", "no-write-to-package-level-state: map written at " + site(ins), And(fr.g, c.g)})
			}
			c.m.update(And(fr.g, c.g), k, v)
		}
	case *ssa.Slice:
		ex.sliceOp(fr, x)
	case *ssa.Extract:
		ex.set(fr, ins, ex.eval(fr, x.Tuple).(TupleV)[x.Index])
	case *ssa.Range:
		ex.rangeOp(fr, x)
	case *ssa.Next:
		ex.nextOp(fr, x)
	case *ssa.Call:
		ex.set(fr, ins, ex.doCall(fr, &x.Call))
	case *ssa.Defer:
		cc := &x.Call
		args := make([]Value, len(cc.Args))
		for i, a := range cc.Args {
			args[i] = ex.eval(fr, a)
		}
		fr.defers = append(fr.defers, deferRec{g: g, fv: ex.eval(fr, cc.Value), args: args, cc: cc})
	case *ssa.RunDefers:
		// deferred calls are executed when the frame is left (see call)
	case *ssa.Jump:
		ex.pushEdge(fr, x.Block(), x.Block().Succs[0], fr.g, true)
	case *ssa.If:
		c := ex.eval(fr, x.Cond).(*T)
		if ex.decideBranches {
			c = ex.decide(fr.g, c)
		}
		ex.pushEdge(fr, x.Block(), x.Block().Succs[0], And(fr.g, c), false)
		ex.pushEdge(fr, x.Block(), x.Block().Succs[1], And(fr.g, Not(c)), true)
	case *ssa.Return:
		var v Value
		switch len(x.Results) {
		case 0:
		case 1:
			v = ex.eval(fr, x.Results[0])
		default:
			t := make(TupleV, len(x.Results))
			for i, r := range x.Results {
				t[i] = ex.eval(fr, r)
			}
			v = t
		}
		fr.rets = append(fr.rets, retRec{fr.g, v})
	case *ssa.Panic:
		ex.addPanic(fr, fr.g, "panic "+site(ins))
	case *ssa.DebugRef:
	default:
		unsup("unsupported instruction %T in %s", ins, fr.fn)
	}
}

func (ex *Exec) intOf(v Value) *T {
	t := v.(*T)
	if t.sort == SBV {
		return BVToInt(t, false)
	}
	return t
}

func pow2(k int64) int64 { return int64(1) << uint(k) }

func (ex *Exec) binop(fr *Frame, x *ssa.BinOp) Value {
	a, b := ex.eval(fr, x.X), ex.eval(fr, x.Y)
	switch x.Op {
	case token.EQL:
		return eqv(a, b)
	case token.NEQ:
		return Not(eqv(a, b))
	}
	p, q := a.(*T), b.(*T)
	if x.Op == token.SHL || x.Op == token.SHR {
		if p.sort == SBV {
			var sh *T
			if q.sort == SBV {
				sh = q
			} else {
				ex.addPanic(fr, And(fr.g, Lt(q, I(0))), "negative shift amount "+site(x))
				sh = IntToBV(q)
			}
			if x.Op == token.SHL {
				return BVop("bvshl", p, sh)
			}
			return BVop("bvlshr", p, sh)
		}
		if q.sort == SBV {
			q = BVToInt(q, false)
		}
		if !isC(q) {
			if q.hi-q.lo > 70 {
				unsup("shift by unbounded amount at %s", site(x))
			}
			var res *T
			for k := q.lo; k <= q.hi; k++ {
				r := ex.shiftConst(p, k, x)
				if res == nil {
					res = r
				} else {
					res = Ite(Eq(q, I(k)), r, res)
				}
			}
			return res
		}
		return ex.shiftConst(p, q.k, x)
	}
	switch p.sort {
	case SBool:
		switch x.Op {
		case token.LAND, token.AND:
			return And(p, q)
		case token.LOR, token.OR:
			return Or(p, q)
		}
	case SBV:
		switch x.Op {
		case token.ADD:
			return Add(p, q)
		case token.SUB:
			return Sub(p, q)
		case token.MUL:
			return Mul(p, q)
		case token.OR:
			return BVop("bvor", p, q)
		case token.AND:
			return BVop("bvand", p, q)
		case token.XOR:
			return BVop("bvxor", p, q)
		case token.QUO:
			return BVop("bvudiv", p, q)
		case token.REM:
			return BVop("bvurem", p, q)
		case token.LSS:
			return Lt(p, q)
		case token.LEQ:
			return Le(p, q)
		case token.GTR:
			return Lt(q, p)
		case token.GEQ:
			return Le(q, p)
		}
	case SStr:
		switch x.Op {
		case token.ADD:
			return Concat(p, q)
		case token.LSS:
			return Lt(p, q)
		case token.LEQ:
			return Le(p, q)
		case token.GTR:
			return Lt(q, p)
		case token.GEQ:
			return Le(q, p)
		}
	case SInt, SReal:
		switch x.Op {
		case token.ADD:
			r := Add(p, q)
			ex.overflow(fr, r, x)
			return r
		case token.SUB:
			r := Sub(p, q)
			ex.overflow(fr, r, x)
			return r
		case token.MUL:
			r := Mul(p, q)
			ex.overflow(fr, r, x)
			if p.sort == SReal && !isC(p) && !isC(q) {
				ex.inexact["float multiplication of two symbolic values"]++
			}
			return r
		case token.QUO:
			if p.sort == SReal {
				if !isC(q) {
					ex.inexact["float division by a symbolic value"]++
				} else if n := q.r.Num(); !(q.r.IsInt() && new(big.Int).And(n, new(big.Int).Sub(n, big.NewInt(1))).Sign() == 0) {
					ex.inexact["float division by a constant that is not a power of two"]++
				}
				return DivR(p, q)
			}
			ex.addPanic(fr, And(fr.g, Eq(q, I(0))), "integer divide by zero "+site(x))
			return QuoI(p, q)
		case token.REM:
			ex.addPanic(fr, And(fr.g, Eq(q, I(0))), "integer divide by zero "+site(x))
			return RemI(p, q)
		case token.LSS:
			return Lt(p, q)
		case token.LEQ:
			return Le(p, q)
		case token.GTR:
			return Lt(q, p)
		case token.GEQ:
			return Le(q, p)
		case token.AND, token.OR, token.XOR, token.AND_NOT:
			if isC(p) && isC(q) {
				switch x.Op {
				case token.AND:
					return I(p.k & q.k)
				case token.OR:
					return I(p.k | q.k)
				case token.XOR:
					return I(p.k ^ q.k)
				case token.AND_NOT:
					return I(p.k &^ q.k)
				}
			}
			if x.Op == token.AND && isC(q) && q.k > 0 && q.k&(q.k+1) == 0 && p.lo >= 0 {
				return RemI(p, I(q.k+1))
			}
			unsup("bitwise %s on symbolic ints at %s", x.Op, site(x))
		}
	}
	unsup("binop %s on %v at %s", x.Op, p.sort, site(x))
	return nil
}

func (ex *Exec) shiftConst(p *T, k int64, x *ssa.BinOp) *T {
	if k < 0 {
		return I(0) // panics natively; the panic obligation is recorded by the caller where relevant
	}
	if x.Op == token.SHL {
		if k >= 62 {
			if isC(p) && p.k == 0 {
				return I(0)
			}
			unsup("left shift by %d on Int-modelled value at %s", k, site(x))
		}
		return Mul(p, I(pow2(k)))
	}
	if k >= 63 {
		return Ite(Lt(p, I(0)), I(-1), I(0))
	}
	if p.lo >= 0 {
		return QuoI(p, I(pow2(k)))
	}
	// arithmetic shift = floor division
	return mk("div", SInt, "", 0, p, I(pow2(k)))
}

func typeRange(t types.Type) (int64, int64, bool) {
	b, ok := t.Underlying().(*types.Basic)
	if !ok {
		return 0, 0, false
	}
	switch b.Kind() {
	case types.Int8:
		return -128, 127, true
	case types.Int16:
		return -32768, 32767, true
	case types.Int32:
		return -1 << 31, 1<<31 - 1, true
	case types.Uint8:
		return 0, 255, true
	case types.Uint16:
		return 0, 65535, true
	case types.Uint32:
		return 0, 1<<32 - 1, true
	case types.Int, types.Int64:
		return NEG, POS, true
	case types.Uint, types.Uintptr:
		return 0, POS, true
	}
	return 0, 0, false
}

func (ex *Exec) overflow(fr *Frame, r *T, x ssa.Value) {
	if r.sort != SInt {
		return
	}
	lo, hi, ok := typeRange(x.Type())
	if !ok {
		return
	}
	if r.lo >= lo && r.hi <= hi {
		return
	}
	if lo == NEG && hi == POS {
		// 64-bit signed: intervals are saturated at +-2^61; only flag when the interval is saturated
		if r.lo > NEG && r.hi < POS {
			return
		}
		ex.inexact["int64 arithmetic with unbounded interval (wrap-around not modelled)"]++
		return
	}
	var c *T = FF
	if r.lo < lo {
		c = Or(c, Lt(r, I(lo)))
	}
	if r.hi > hi {
		c = Or(c, Lt(I(hi), r))
	}
	if c != FF {
		if ins, ok := x.(ssa.Instruction); ok {
			ex.queries = append(ex.queries, Query{"overflow", "integer wrap-around " + site(ins), And(fr.g, c)})
		}
	}
}

func (ex *Exec) convert(fr *Frame, x *ssa.Convert) Value {
	v := ex.eval(fr, x.X)
	from, to := x.X.Type().Underlying(), x.Type().Underlying()
	fb, ok1 := from.(*types.Basic)
	tb, ok2 := to.(*types.Basic)
	if !ok1 || !ok2 {
		if _, ok := v.(Ptr); ok { // unsafe.Pointer conversions
			return v
		}
		if _, ok := v.(SliceV); ok {
			unsup("slice<->string conversion at %s", site(x))
		}
		if st, ok := v.(*T); ok && st.sort == SStr {
			if sl, ok := to.(*types.Slice); ok {
				if eb, ok := sl.Elem().Underlying().(*types.Basic); ok && eb.Kind() == types.Uint8 {
					return ex.stringBytes(st, x, 0)
				}
			}
		}
		return v
	}
	t, isT := v.(*T)
	if !isT {
		return v
	}
	switch {
	case fb.Info()&types.IsInteger != 0 && tb.Info()&types.IsInteger != 0:
		if t.sort == SBV && tb.Kind() != types.Uint64 {
			return BVToInt(t, tb.Info()&types.IsUnsigned == 0)
		}
		if t.sort == SInt && tb.Kind() == types.Uint64 {
			return IntToBV(t)
		}
		if t.sort == SInt {
			lo, hi, ok := typeRange(x.Type())
			if ok && (t.lo < lo || t.hi > hi) && !(lo == NEG || (lo == 0 && hi == POS && t.lo >= 0)) {
				ex.queries = append(ex.queries, Query{"overflow", "integer conversion out of range " + site(x), And(fr.g, Or(Lt(t, I(lo)), Lt(I(hi), t)))})
			}
			if ok && lo == 0 && hi == POS && t.lo < 0 {
				ex.queries = append(ex.queries, Query{"overflow", "negative value converted to unsigned " + site(x), And(fr.g, Lt(t, I(0)))})
			}
		}
		return t
	case fb.Info()&types.IsInteger != 0 && tb.Info()&types.IsFloat != 0:
		if t.sort == SBV {
			t = BVToInt(t, false)
		}
		return ToReal(t)
	case fb.Info()&types.IsFloat != 0 && tb.Info()&types.IsInteger != 0:
		r := Trunc(t)
		if tb.Kind() == types.Uint64 {
			return IntToBV(r)
		}
		return r
	case fb.Info()&types.IsFloat != 0 && tb.Info()&types.IsFloat != 0:
		return t
	case fb.Info()&types.IsString != 0 && tb.Info()&types.IsString != 0:
		return t
	case fb.Info()&types.IsInteger != 0 && tb.Info()&types.IsString != 0:
		if isC(t) {
			return S(string(rune(t.k)))
		}
	}
	unsup("convert %v -> %v at %s", from, to, site(x))
	return nil
}

func (ex *Exec) typeAssert(fr *Frame, x *ssa.TypeAssert) {
	iv := ex.eval(fr, x.X).(IfaceV)
	var res Value = zero(x.AssertedType)
	ok := FF
	_, toIface := x.AssertedType.Underlying().(*types.Interface)
	for _, c := range iv.c {
		match := false
		if toIface {
			match = types.Implements(c.t, x.AssertedType.Underlying().(*types.Interface))
		} else {
			match = types.Identical(c.t, x.AssertedType)
		}
		if !match {
			continue
		}
		if toIface {
			res = merge(c.g, IfaceV{[]IC{{TT, c.t, c.v}}}, res)
		} else {
			res = merge(c.g, c.v, res)
		}
		ok = Or(ok, c.g)
	}
	if x.CommaOk {
		ex.set(fr, x, TupleV{res, ok})
		return
	}
	ex.addPanic(fr, And(fr.g, Not(ok)), "interface conversion "+site(x))
	ex.set(fr, x, res)
}

func (ex *Exec) sliceOp(fr *Frame, x *ssa.Slice) {
	g := fr.g
	var lo, hi, mx *T
	if x.Low != nil {
		lo = ex.intOf(ex.eval(fr, x.Low))
	} else {
		lo = I(0)
	}
	switch b := ex.eval(fr, x.X).(type) {
	case SliceV:
		if x.High != nil {
			hi = ex.intOf(ex.eval(fr, x.High))
		} else {
			hi = b.len
		}
		if x.Max != nil {
			mx = ex.intOf(ex.eval(fr, x.Max))
		} else {
			mx = b.cap
		}
		ex.addPanic(fr, And(g, Or(Or(Lt(lo, I(0)), Lt(hi, lo)), Or(Lt(mx, hi), Lt(b.cap, mx)))), "slice bounds out of range "+site(x))
		if len(b.c) == 0 {
			ex.set(fr, x, SliceV{nil, I(0), I(0), I(0)})
			return
		}
		ex.set(fr, x, SliceV{b.c, Add(b.off, lo), Sub(hi, lo), Sub(mx, lo)})
	case Ptr:
		var res Value
		for _, pc := range b.c {
			if pc.obj == nil {
				ex.addPanic(fr, And(g, pc.g), "nil dereference "+site(x))
				continue
			}
			if len(pc.path) != 0 {
				unsup("slice of interior array at %s", site(x))
			}
			n := int64(len(pc.obj.v.(ArrayV).e))
			h := hi
			if x.High != nil {
				h = ex.intOf(ex.eval(fr, x.High))
			} else {
				h = I(n)
			}
			m := I(n)
			if x.Max != nil {
				m = ex.intOf(ex.eval(fr, x.Max))
			}
			ex.addPanic(fr, And(g, Or(Or(Lt(lo, I(0)), Lt(h, lo)), Or(Lt(m, h), Lt(I(n), m)))), "slice bounds out of range "+site(x))
			s := SliceV{[]SC{{TT, pc.obj}}, lo, Sub(h, lo), Sub(m, lo)}
			if res == nil {
				res = s
			} else {
				res = merge(pc.g, s, res)
			}
		}
		if res == nil {
			res = SliceV{nil, I(0), I(0), I(0)}
		}
		ex.set(fr, x, res)
	case *T:
		if b.sort == SStr && isC(b) {
			h := I(int64(len(b.name)))
			if x.High != nil {
				h = ex.intOf(ex.eval(fr, x.High))
			}
			if isC(lo) && isC(h) && lo.k >= 0 && h.k >= lo.k && int(h.k) <= len(b.name) {
				ex.set(fr, x, S(b.name[lo.k:h.k]))
				return
			}
		}
		unsup("string slicing at %s", site(x))
	default:
		unsup("slice on %T", b)
	}
}

func (ex *Exec) rangeOp(fr *Frame, x *ssa.Range) {
	switch m := ex.eval(fr, x.X).(type) {
	case MapV:
		mt := x.X.Type().Underlying().(*types.Map)
		it := &IterV{ms: m.c, kt: mt.Key(), vt: mt.Elem()}
		idx := map[string]int{}
		for _, mc := range m.c {
			if mc.m.useLog {
				unsup("range over a map with symbolic keys at %s", site(x))
			}
			for _, c := range mc.m.order {
				s := mc.m.slots[c]
				p := And(mc.g, s.present)
				if p == FF {
					continue
				}
				if i, ok := idx[c]; ok {
					it.pres[i] = Or(it.pres[i], p)
					continue
				}
				idx[c] = len(it.keys)
				it.keys = append(it.keys, s.key)
				it.pres = append(it.pres, p)
			}
		}
		ex.set(fr, x, it)
	case *T:
		if m.sort == SStr && isC(m) {
			ex.set(fr, x, &IterV{str: m})
			return
		}
		unsup("range over symbolic string at %s", site(x))
	default:
		unsup("range over %T", m)
	}
}

func (ex *Exec) nextOp(fr *Frame, x *ssa.Next) {
	it := ex.eval(fr, x.Iter).(*IterV)
	g := fr.g
	if it.str != nil {
		rs := []rune(it.str.name)
		j := it.step
		it.step++
		if j >= len(rs) {
			ex.set(fr, x, TupleV{FF, I(0), I(0)})
			return
		}
		off := len(string(rs[:j]))
		ex.set(fr, x, TupleV{TT, I(int64(off)), I(int64(rs[j]))})
		return
	}
	if ex.fixedOrder && !it.checked {
		// fixed (insertion) order is used only when the set of live keys is concrete
		it.checked = true
		it.fixed = true
		var keys []Value
		for i, p := range it.pres {
			if p == TT {
				keys = append(keys, it.keys[i])
			} else if p != FF {
				it.fixed = false
			}
		}
		if it.fixed {
			it.keys = keys
			it.pres = make([]*T, len(keys))
			for i := range it.pres {
				it.pres[i] = TT
			}
		}
	}
	if ex.flipOrder && !it.checked {
		// two candidate orders per range statement instead of n!: sound for violations (both orders are real map orders), not
		// exhaustive; used on shapes where the full permutation does not scale. Falls back to the full permutation when the set
		// of live keys is not concrete.
		it.checked = true
		var keys []Value
		conc := true
		for i, p := range it.pres {
			if p == TT {
				keys = append(keys, it.keys[i])
			} else if p != FF {
				conc = false
			}
		}
		if conc {
			it.keys = keys
			it.pres = make([]*T, len(keys))
			for i := range it.pres {
				it.pres[i] = TT
			}
			if len(keys) > 1 {
				ex.nvar++
				name := fmt.Sprintf("pickrev%d", ex.nvar)
				it.rev = BoolVar(name)
				ex.nondets = append(ex.nondets, NondetRec{Name: "maporder@" + site(x), Var: name, Kind: "pick"})
			} else {
				it.fixed = true
			}
		}
	}
	n := len(it.keys)
	j := it.step
	it.step++
	if it.rev != nil {
		if j >= n {
			ex.set(fr, x, TupleV{FF, zero(it.kt), zero(it.vt)})
			return
		}
		key := it.keys[j]
		if j != n-1-j {
			key = merge(it.rev, it.keys[n-1-j], it.keys[j])
		}
		val, _ := ex.mapLookup(fr, MapV{it.ms}, key, it.vt)
		ex.set(fr, x, TupleV{TT, key, val})
		return
	}
	if it.fixed {
		if j >= n {
			ex.set(fr, x, TupleV{FF, zero(it.kt), zero(it.vt)})
			return
		}
		val, _ := ex.mapLookup(fr, MapV{it.ms}, it.keys[j], it.vt)
		ex.set(fr, x, TupleV{TT, it.keys[j], val})
		return
	}
	if j >= n {
		ex.set(fr, x, TupleV{FF, zero(it.kt), zero(it.vt)})
		return
	}
	count := I(0)
	for _, p := range it.pres {
		count = Add(count, Ite(p, I(1), I(0)))
	}
	ok := Lt(I(int64(j)), count)
	var key Value
	if n == 1 {
		key = it.keys[0]
		it.picks = append(it.picks, I(0))
	} else {
		ex.nvar++
		name := fmt.Sprintf("pick%d_%d", ex.nvar, j)
		pick := IntVar(name, 0, int64(n-1))
		ex.nondets = append(ex.nondets, NondetRec{Name: "maporder@" + site(x), Var: name, Kind: "pick"})
		cons := TT
		for i := range it.keys {
			c := Eq(pick, I(int64(i)))
			cons = And(cons, Or(Not(c), it.pres[i]))
			if key == nil {
				key = it.keys[i]
			} else {
				key = merge(c, it.keys[i], key)
			}
		}
		for _, p := range it.picks {
			cons = And(cons, Not(Eq(pick, p)))
		}
		it.picks = append(it.picks, pick)
		ex.assumes = append(ex.assumes, Or(Not(And(g, ok)), cons))
	}
	val, _ := ex.mapLookup(fr, MapV{it.ms}, key, it.vt)
	ex.set(fr, x, TupleV{ok, key, val})
}

func (ex *Exec) doCall(fr *Frame, cc *ssa.CallCommon) Value {
	args := make([]Value, len(cc.Args))
	for i, a := range cc.Args {
		args[i] = ex.eval(fr, a)
	}
	res, p := ex.dispatch(fr, cc, ex.eval(fr, cc.Value), args, fr.g)
	if p != FF {
		fr.panicked = Or(fr.panicked, p)
		fr.g = And(fr.g, Not(p))
	}
	if res == nil {
		if cc.Signature().Results().Len() > 0 {
			res = zero(cc.Signature().Results())
			if cc.Signature().Results().Len() == 1 {
				res = res.(TupleV)[0]
			}
		} else {
			res = TupleV{}
		}
	}
	return res
}

// dispatch calls the function value fv (or invokes a method on an interface value) under guard g.
func (ex *Exec) dispatch(fr *Frame, cc *ssa.CallCommon, fv Value, args []Value, g *T) (Value, *T) {
	if cc.IsInvoke() {
		iv := fv.(IfaceV)
		var res Value
		panicked := FF
		isNil := TT
		for _, c := range iv.c {
			isNil = And(isNil, Not(c.g))
			fn := ex.prog.LookupMethod(c.t, cc.Method.Pkg(), cc.Method.Name())
			if fn == nil {
				unsup("invoke: no method %s on %v", cc.Method.Name(), c.t)
			}
			r, p := ex.callFn(fr, fn, append([]Value{c.v}, args...), nil, And(g, c.g))
			panicked = Or(panicked, p)
			if res == nil {
				res = r
			} else {
				res = merge(c.g, r, res)
			}
		}
		np := And(g, isNil)
		if np != FF {
			ex.addPanic(fr, np, "nil interface method call")
		}
		return res, panicked
	}
	switch f := fv.(type) {
	case *ssa.Builtin:
		return ex.builtin(fr, f, cc, args), FF
	case FuncV:
		var res Value
		panicked := FF
		isNil := TT
		for _, c := range f.c {
			isNil = And(isNil, Not(c.g))
			var r Value
			p := FF
			if c.native != nil {
				r = c.native(fr, args, And(g, c.g))
			} else {
				r, p = ex.callFn(fr, c.fn, args, c.env, And(g, c.g))
			}
			panicked = Or(panicked, p)
			if res == nil {
				res = r
			} else {
				res = merge(c.g, r, res)
			}
		}
		np := And(g, isNil)
		if np != FF {
			ex.addPanic(fr, np, "call of nil func")
		}
		return res, panicked
	}
	unsup("dispatch on %T", fv)
	return nil, FF
}

func (ex *Exec) callFn(fr *Frame, fn *ssa.Function, args []Value, env []Value, g *T) (Value, *T) {
	if g == FF {
		return zeroRes(fn), FF
	}
	if r, p, ok := ex.intrinsic(fr, fn, args, env, g); ok {
		return r, p
	}
	if fn.Name() == "init" && fn.Pkg != nil && !strings.HasPrefix(fn.Pkg.Pkg.Path(), ex.modPath) {
		return nil, FF
	}
	if fn.Blocks == nil {
		unsup("no body and no intrinsic for %s", fn.String())
	}
	return ex.call(fn, args, env, g, fr)
}

func (ex *Exec) builtin(fr *Frame, f *ssa.Builtin, cc *ssa.CallCommon, args []Value) Value {
	switch f.Name() {
	case "len":
		switch a := args[0].(type) {
		case SliceV:
			return a.len
		case *T:
			return StrLen(a)
		case MapV:
			n := I(0)
			for _, c := range a.c {
				n = Ite(c.g, c.m.length(), n)
			}
			return n
		case ArrayV:
			return I(int64(len(a.e)))
		case Ptr:
			return I(cc.Args[0].Type().Underlying().(*types.Pointer).Elem().Underlying().(*types.Array).Len())
		}
	case "cap":
		switch a := args[0].(type) {
		case SliceV:
			return a.cap
		case ArrayV:
			return I(int64(len(a.e)))
		}
	case "append":
		st, ok := cc.Args[0].Type().Underlying().(*types.Slice)
		if !ok {
			unsup("append on non-slice")
		}
		if _, isStr := args[1].(*T); isStr {
			unsup("append(bytes, string...)")
		}
		return ex.doAppend(fr, args[0].(SliceV), args[1].(SliceV), st.Elem())
	case "copy":
		if _, isStr := args[1].(*T); isStr {
			unsup("copy(bytes, string)")
		}
		return ex.doCopy(fr, args[0].(SliceV), args[1].(SliceV))
	case "min", "max":
		r := args[0].(*T)
		for _, b := range args[1:] {
			if f.Name() == "min" {
				r = Min(r, b.(*T))
			} else {
				r = Max(r, b.(*T))
			}
		}
		return r
	case "delete":
		m := args[0].(MapV)
		for _, c := range m.c {
			c.m.delete(And(fr.g, c.g), args[1])
		}
		return nil
	case "clear":
		switch m := args[0].(type) {
		case MapV:
			for _, c := range m.c {
				c.m.clear(And(fr.g, c.g))
			}
			return nil
		}
	case "print", "println":
		return nil
	case "ssa:wrapnilchk":
		p := args[0].(Ptr)
		for _, c := range p.c {
			if c.obj == nil {
				ex.addPanic(fr, And(fr.g, c.g), "nil receiver in method wrapper")
			}
		}
		return p
	case "recover":
		if n := len(ex.recoverStack); n > 0 {
			ctx := ex.recoverStack[n-1]
			rec := And(fr.g, ctx.panicking)
			if rec == FF {
				return IfaceV{}
			}
			ctx.recovered = Or(ctx.recovered, rec)
			return IfaceV{[]IC{{rec, types.Typ[types.String], S("<recovered panic value>")}}}
		}
		return IfaceV{}
	}
	unsup("builtin %s", f.Name())
	return nil
}

// funcsSorted returns the list of executed functions.
func (ex *Exec) funcsSorted() []string {
	var l []string
	for f := range ex.fnsSeen {
		l = append(l, f)
	}
	sort.Strings(l)
	return l
}


// stringBytes: []byte(s) for a string term that is a constant or an ite-tree over constants.
func (ex *Exec) stringBytes(t *T, x *ssa.Convert, depth int) Value {
	if isC(t) {
		cells := make([]Value, len(t.name))
		for i := range cells {
			cells[i] = I(int64(t.name[i]))
		}
		n := I(int64(len(cells)))
		if len(cells) == 0 {
			return SliceV{[]SC{{TT, newObj(ArrayV{cells}, nil)}}, I(0), n, n}
		}
		return SliceV{[]SC{{TT, newObj(ArrayV{cells}, nil)}}, I(0), n, n}
	}
	if t.op == "ite" && depth < 8 {
		return merge(t.a[0], ex.stringBytes(t.a[1], x, depth+1), ex.stringBytes(t.a[2], x, depth+1))
	}
	unsup("[]byte(string) of a symbolic string at %s", site(x))
	return nil
}
