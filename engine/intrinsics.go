package main

// Environment stubs and harness intrinsics. Every stub that fires is recorded in ex.stubsUsed and
// listed in the evidence (each stub is part of the claim).

import (
	"fmt"
	"math"
	"math/big"
	"strings"

	"golang.org/x/tools/go/ssa"
)

func (ex *Exec) freshName(base string) string {
	k := ex.ndCount[base]
	ex.ndCount[base] = k + 1
	s := strings.Map(func(r rune) rune {
		if r >= 'a' && r <= 'z' || r >= 'A' && r <= 'Z' || r >= '0' && r <= '9' || r == '_' {
			return r
		}
		return '_'
	}, base)
	return fmt.Sprintf("vh_%s_%d", s, k)
}

func strArg(v Value) string {
	t := v.(*T)
	if t.sort != SStr || !isC(t) {
		unsup("harness label must be a constant string")
	}
	return t.name
}

func ratToFloat(r *big.Rat) float64 { f, _ := r.Float64(); return f }

func (ex *Exec) harnessIntrinsic(fr *Frame, name string, args []Value, g *T) (Value, *T, bool) {
	switch name {
	case "vhInt":
		lo, hi := args[1].(*T), args[2].(*T)
		if !isC(lo) || !isC(hi) {
			unsup("vhInt bounds must be constants")
		}
		base := strArg(args[0])
		vn := ex.freshName(base)
		v := IntVar(vn, lo.k, hi.k)
		ex.nondets = append(ex.nondets, NondetRec{Name: base, Var: vn, Kind: "int"})
		return v, FF, true
	case "vhBool":
		base := strArg(args[0])
		vn := ex.freshName(base)
		ex.nondets = append(ex.nondets, NondetRec{Name: base, Var: vn, Kind: "bool"})
		return BoolVar(vn), FF, true
	case "vhReal":
		lo, hi := args[1].(*T), args[2].(*T)
		base := strArg(args[0])
		vn := ex.freshName(base)
		v := RealVar(vn)
		if isC(lo) && isC(hi) {
			v.rlo, v.rhi = ratToFloat(lo.r), ratToFloat(hi.r)
		}
		if !isC(lo) || !isC(hi) {
			unsup("vhReal bounds must be constants")
		}
		ex.nondets = append(ex.nondets, NondetRec{Name: base, Var: vn, Kind: "real", Lo: ratToFloat(lo.r), Hi: ratToFloat(hi.r)})
		ex.assumes = append(ex.assumes, And(Le(lo, v), Le(v, hi)))
		return v, FF, true
	case "vhInstantiate":
		// registers a term at which the universally quantified part of a callee summary (completeness of the
		// root finder) is instantiated
		ex.instTerms = append(ex.instTerms, args[0].(*T))
		return nil, FF, true
	case "vhStr":
		base := strArg(args[0])
		vn := ex.freshName(base)
		ex.nondets = append(ex.nondets, NondetRec{Name: base, Var: vn, Kind: "str"})
		return StrVar(vn), FF, true
	case "vhAssume":
		ex.assumes = append(ex.assumes, Or(Not(g), args[0].(*T)))
		return nil, FF, true
	case "vhAssert":
		ex.queries = append(ex.queries, Query{"assert", strArg(args[1]), And(g, Not(args[0].(*T)))})
		return nil, FF, true
	case "vhKnown":
		// vhKnown(ok, id): a listed known finding; the check reports whether it still reproduces
		ex.queries = append(ex.queries, Query{"known", strArg(args[1]), And(g, Not(args[0].(*T)))})
		return nil, FF, true
	case "vhReach":
		ex.queries = append(ex.queries, Query{"reach", strArg(args[0]), g})
		return nil, FF, true
	case "vhCheckPanics":
		ex.checkPanics = true
		return nil, FF, true
	case "vhCheckSharedWrites":
		ex.checkShared = true
		return nil, FF, true
	case "vhPanics":
		ex.suppress++
		_, p := ex.dispatch(fr, &ssa.CallCommon{}, args[0], nil, g)
		ex.suppress--
		return p, FF, true
	case "vhConst":
		n := strArg(args[0])
		v, ok := ex.consts[n]
		if !ok {
			unsup("harness constant %q not supplied", n)
		}
		return I(v), FF, true
	case "vhConstIdx":
		i := args[1].(*T)
		if !isC(i) {
			unsup("vhConstIdx index must be concrete")
		}
		n := fmt.Sprintf("%s[%d]", strArg(args[0]), i.k)
		v, ok := ex.consts[n]
		if !ok {
			unsup("harness constant %q not supplied", n)
		}
		return I(v), FF, true
	case "vhObserveInt", "vhObserveReal", "vhObserveBool", "vhObserveStr":
		ex.observes = append(ex.observes, Observe{Label: strArg(args[0]), g: g, v: args[1]})
		return nil, FF, true
	}
	return nil, nil, false
}

func (ex *Exec) stub(name string) { ex.stubsUsed[name] = true }

func realEnum(x *T) ([]int64, *T, bool) {
	// x == to_real(i) with a small interval
	if x.op == "to_real" && x.a[0].hi-x.a[0].lo <= 256 && x.a[0].lo > NEG {
		var vs []int64
		for v := x.a[0].lo; v <= x.a[0].hi; v++ {
			vs = append(vs, v)
		}
		return vs, x.a[0], true
	}
	return nil, nil, false
}

func (ex *Exec) intrinsic(fr *Frame, fn *ssa.Function, args []Value, env []Value, g *T) (Value, *T, bool) {
	name := fn.String()
	if strings.HasPrefix(fn.Name(), "vh") && fn.Pkg != nil && strings.HasPrefix(fn.Pkg.Pkg.Path(), ex.modPath) {
		if r, p, ok := ex.harnessIntrinsic(fr, fn.Name(), args, g); ok {
			return r, p, true
		}
	}
	if strings.HasSuffix(name, "/internal/geom.curveContained") && ex.consts["SUMMARY_CONTAINED"] == 1 {
		// the containment verdict as an arbitrary boolean: control-flow claims about its callers (termination,
		// which points the pieces start and end at) then hold whatever the verdicts are
		ex.stub("geom.curveContained = arbitrary boolean (over-approximation: every sequence of verdicts)")
		vn := ex.freshName("contained")
		ex.nondets = append(ex.nondets, NondetRec{Name: "contained", Var: vn, Kind: "bool"})
		return BoolVar(vn), FF, true
	}
	if strings.HasSuffix(name, "/internal/geom.solve3") && ex.consts["SUMMARY_SOLVE3"] == 1 {
		return ex.solve3Summary(args, g), FF, true
	}
	switch name {
	case "time.Now":
		ex.stub("time.Now() = opaque instant")
		return OpaqueV{"time"}, FF, true
	case "(time.Time).UnixNano":
		ex.stub("(time.Time).UnixNano() = arbitrary int64")
		vn := ex.freshName("unixnano")
		return IntVar(vn, NEG, POS), FF, true
	case "math/rand.NewSource":
		ex.stub("rand.NewSource = opaque")
		return IfaceV{}, FF, true
	case "math/rand.New":
		ex.stub("rand.New = opaque generator")
		return ptrTo(newObj(OpaqueV{"rand"}, nil)), FF, true
	case "(*math/rand.Rand).Intn":
		ex.stub("(*rand.Rand).Intn(n) = arbitrary value in [0,n)")
		n := args[1].(*T)
		if rp, ok := args[0].(Ptr); ok {
			for _, c := range rp.c {
				ex.sharedWrite(fr, c.obj, And(g, c.g), "(*rand.Rand).Intn (advances the generator state)")
			}
		}
		ex.addPanic(fr, And(g, Le(n, I(0))), "invalid argument to Intn")
		vn := ex.freshName("randintn")
		hi := n.hi - 1
		if hi < 0 {
			hi = 0
		}
		v := IntVar(vn, 0, hi)
		ex.nondets = append(ex.nondets, NondetRec{Name: "rand.Intn", Var: vn, Kind: "rand"})
		ex.assumes = append(ex.assumes, Or(Not(g), Lt(v, n)))
		return v, FF, true
	case "strings.Compare", "internal/bytealg.CompareString":
		a, b := args[0].(*T), args[1].(*T)
		return Ite(Lt(a, b), I(-1), Ite(Eq(a, b), I(0), I(1))), FF, true
	case "strconv.Itoa":
		return StrFromInt(args[0].(*T)), FF, true
	case "math.Sqrt":
		x := args[0].(*T)
		if isC(x) {
			return RF(math.Sqrt(ratToFloat(x.r))), FF, true
		}
		if vs, iv, ok := realEnum(x); ok {
			var res *T
			for _, v := range vs {
				if v < 0 {
					continue
				}
				r := RF(math.Sqrt(float64(v)))
				if res == nil {
					res = r
				} else {
					res = Ite(Eq(iv, I(v)), r, res)
				}
			}
			if res != nil {
				return res, FF, true
			}
		}
		if r, ok := mapIteConst(x, func(c *T) *T { return RF(math.Sqrt(ratToFloat(c.r))) }, 0); ok {
			return r, FF, true
		}
		// symbolic: introduced by its defining (in)equations; a negative argument (NaN natively) is a query
		ex.stub("math.Sqrt(x) = s with s >= 0 and s*s = x (exact real square root; NaN for x < 0 is reported as a query)")
		ex.inexact["math.Sqrt of a symbolic value (exact real root instead of the rounded float)"]++
		if ex.checkPanics {
			ex.queries = append(ex.queries, Query{"panic", "NaN: math.Sqrt of a negative number", And(g, Lt(x, RI(0)))})
		}
		sv := RealVar(ex.freshName("sqrt"))
		ex.assumes = append(ex.assumes, Or(Not(And(g, Le(RI(0), x))), And(Le(RI(0), sv), Eq(Mul(sv, sv), x))))
		return sv, FF, true
	case "math.Cbrt":
		x := args[0].(*T)
		if isC(x) {
			return RF(math.Cbrt(ratToFloat(x.r))), FF, true
		}
		ex.stub("math.Cbrt(x) = c with c*c*c = x (exact real cube root)")
		ex.inexact["math.Cbrt of a symbolic value (exact real root instead of the rounded float)"]++
		cv := RealVar(ex.freshName("cbrt"))
		ex.assumes = append(ex.assumes, Or(Not(g), Eq(Mul(Mul(cv, cv), cv), x)))
		return cv, FF, true
	case "math.Hypot":
		x, y := args[0].(*T), args[1].(*T)
		if isC(x) && isC(y) {
			return RF(math.Hypot(ratToFloat(x.r), ratToFloat(y.r))), FF, true
		}
		ex.stub("math.Hypot(x,y) = h with h >= 0 and h*h = x*x + y*y")
		ex.inexact["math.Hypot of symbolic values (exact real value instead of the rounded float)"]++
		hv := RealVar(ex.freshName("hypot"))
		ex.assumes = append(ex.assumes, Or(Not(g), And(Le(RI(0), hv), Eq(Mul(hv, hv), Add(Mul(x, x), Mul(y, y))))))
		return hv, FF, true
	case "math.Atan2", "math.Cos", "math.Sin", "math.Acos", "math.Atan":
		allC := true
		for _, a := range args {
			if !isC(a.(*T)) {
				allC = false
			}
		}
		if allC {
			f := func(i int) float64 { return ratToFloat(args[i].(*T).r) }
			switch name {
			case "math.Atan2":
				return RF(math.Atan2(f(0), f(1))), FF, true
			case "math.Cos":
				return RF(math.Cos(f(0))), FF, true
			case "math.Sin":
				return RF(math.Sin(f(0))), FF, true
			case "math.Acos":
				return RF(math.Acos(f(0))), FF, true
			case "math.Atan":
				return RF(math.Atan(f(0))), FF, true
			}
		}
		// Angle terms: Atan2(y,x) / Atan(t) = Atan2(t,1) are opaque angle variables that remember their
		// arguments; Cos((angle + 2k*pi)/3) is then introduced by its defining polynomial equation
		// (triple-angle identity) and the interval that singles out the branch -- exact in real arithmetic.
		if name == "math.Atan2" || name == "math.Atan" {
			av := RealVar(ex.freshName("angle"))
			if name == "math.Atan2" {
				angleOf[av.id] = [2]*T{args[0].(*T), args[1].(*T)}
			} else {
				angleOf[av.id] = [2]*T{args[0].(*T), RI(1)}
			}
			ex.stub(name + " of a symbolic value = opaque angle (only cos((angle + 2k*pi)/3), k in {-1,0,1}, is interpreted, by the triple-angle identity; any other use is unconstrained)")
			ex.inexact[name+" as opaque angle"]++
			return av, FF, true
		}
		if name == "math.Cos" {
			if cv, ok := ex.cosThird(args[0].(*T), g); ok {
				return cv, FF, true
			}
		}
		ex.stub(name + " of a symbolic value = unconstrained fresh value (uninterpreted: a proof holds for the real function, a sat answer is only a candidate)")
		ex.inexact[name+" uninterpreted"]++
		return RealVar(ex.freshName("trig")), FF, true
	case "math.Abs":
		x := args[0].(*T)
		return Ite(Lt(x, RI(0)), Neg(x), x), FF, true
	case "math.Floor":
		return ToReal(Floor(args[0].(*T))), FF, true
	case "math.Ceil":
		return Neg(ToReal(Floor(Neg(args[0].(*T))))), FF, true
	case "math.Round":
		x := args[0].(*T)
		half := R(big.NewRat(1, 2))
		pos := ToReal(Floor(Add(x, half)))
		neg := Neg(ToReal(Floor(Add(Neg(x), half))))
		return Ite(Lt(x, RI(0)), neg, pos), FF, true
	case "math.Inf":
		s := args[0].(*T)
		if !isC(s) {
			unsup("math.Inf with symbolic sign")
		}
		ex.stub("math.Inf = symbolic huge constant vh_INF >= 2^100 (comparisons exact for finite values below it; arithmetic on it is flagged)")
		var t *T
		if s.k >= 0 {
			t = mk("posinf", SReal, "", 0)
		} else {
			t = mk("neginf", SReal, "", 0)
		}
		t.inf = true
		return t, FF, true
	case "math.IsInf":
		x := args[0].(*T)
		s := args[1].(*T)
		if !isC(s) {
			unsup("math.IsInf with symbolic sign")
		}
		pi := mk("posinf", SReal, "", 0)
		ni := mk("neginf", SReal, "", 0)
		switch {
		case s.k > 0:
			return Le(pi, x), FF, true
		case s.k < 0:
			return Le(x, ni), FF, true
		}
		return Or(Le(pi, x), Le(x, ni)), FF, true
	case "math.IsNaN":
		return FF, FF, true
	case "math/bits.Len", "math/bits.Len64":
		x := ex.intOf(args[0])
		if isC(x) {
			n := 0
			for v := uint64(x.k); v != 0; v >>= 1 {
				n++
			}
			return I(int64(n)), FF, true
		}
		if x.lo >= 0 && x.hi-x.lo <= 4096 {
			var res *T
			for v := x.lo; v <= x.hi; v++ {
				n := int64(0)
				for u := uint64(v); u != 0; u >>= 1 {
					n++
				}
				if res == nil {
					res = I(n)
				} else {
					res = Ite(Eq(x, I(v)), I(n), res)
				}
			}
			return res, FF, true
		}
		unsup("bits.Len of unbounded value")
	case "sort.Slice", "sort.SliceStable":
		ex.sortSlice(fr, args, g, name)
		return nil, fr0panic(fr), true
	case "maps.clone":
		iv := args[0].(IfaceV)
		if len(iv.c) != 1 {
			unsup("maps.clone on merged interface")
		}
		mv := iv.c[0].v.(MapV)
		var out MapV
		for _, c := range mv.c {
			out.c = append(out.c, MC{c.g, c.m.clone()})
		}
		return IfaceV{[]IC{{TT, iv.c[0].t, out}}}, FF, true
	case "fmt.Sprintf", "fmt.Sprint", "fmt.Sprintln":
		ex.stub("fmt.Sprint* = opaque constant string")
		return S("<fmt>"), FF, true
	case "fmt.Println", "fmt.Printf", "fmt.Print":
		ex.stub("fmt.Print* = no-op")
		return TupleV{I(0), IfaceV{}}, FF, true
	}
	return nil, nil, false
}

func fr0panic(fr *Frame) *T { return FF }

func (ex *Exec) writeSlice(fr *Frame, s SliceV, idx *T, v Value, g *T) {
	pos := Add(s.off, idx)
	for _, sc := range s.c {
		arr := sc.obj.v.(ArrayV)
		var ncells []Value
		for p := range arr.e {
			c := AndN(g, sc.g, Eq(pos, I(int64(p))))
			if c == FF {
				continue
			}
			if ncells == nil {
				ncells = append([]Value(nil), arr.e...)
			}
			ncells[p] = merge(c, v, ncells[p])
		}
		if ncells != nil {
			sc.obj.v = ArrayV{ncells}
		}
	}
}

// sortSlice mirrors sort.Slice for len <= 12, where pdqsort_func is exactly insertionSortLessFunc:
//
//	for i := a + 1; i < b; i++ { for j := i; j > a && less(j, j-1); j-- { swap(j, j-1) } }
func (ex *Exec) sortSlice(fr *Frame, args []Value, g *T, name string) {
	iv := args[0].(IfaceV)
	if len(iv.c) != 1 {
		unsup("%s on merged interface", name)
	}
	s := iv.c[0].v.(SliceV)
	less := args[1]
	if s.len.hi > 12 {
		// longer slices: run the standard library's real pdqsort_func from its SSA body, with the
		// user's less function and an engine-provided element swapper (reflectlite.Swapper natively)
		sp := ex.prog.ImportedPackage("sort")
		if sp == nil || sp.Func("pdqsort_func") == nil || name != "sort.Slice" {
			unsup("%s: length may exceed 12 and sort.pdqsort_func is not available", name)
		}
		ex.stub("sort.Slice (len > 12) = the real sort.pdqsort_func SSA body with an engine-provided swapper")
		swap := FuncV{[]FC{{g: TT, native: func(fr2 *Frame, a []Value, gg *T) Value {
			x, y := a[0].(*T), a[1].(*T)
			vx, vy := ex.readSlice(s, x), ex.readSlice(s, y)
			ex.writeSlice(fr2, s, x, vy, gg)
			ex.writeSlice(fr2, s, y, vx, gg)
			return nil
		}}}}
		data := StructV{[]Value{less, swap}}
		n := s.len
		var limit *T
		if isC(n) {
			l := 0
			for v := uint64(n.k); v != 0; v >>= 1 {
				l++
			}
			limit = I(int64(l))
		} else {
			unsup("%s: symbolic length above 12", name)
		}
		_, p := ex.callFn(fr, sp.Func("pdqsort_func"), []Value{data, I(0), n, limit}, nil, g)
		if p != FF {
			fr.panicked = Or(fr.panicked, p)
			fr.g = And(fr.g, Not(p))
		}
		return
	}
	ex.stub("sort.Slice = insertion sort (exact for len <= 12, which is what pdqsort_func runs)")
	H := int(s.len.hi)
	for i := 1; i < H; i++ {
		cont := And(fr.g, Lt(I(int64(i)), s.len))
		for j := i; j > 0 && cont != FF; j-- {
			r, p := ex.dispatch(fr, &ssa.CallCommon{}, less, []Value{I(int64(j)), I(int64(j - 1))}, cont)
			if p != FF {
				fr.panicked = Or(fr.panicked, p)
				fr.g = And(fr.g, Not(p))
				cont = And(cont, Not(p))
			}
			cont = And(cont, r.(*T))
			if cont == FF {
				break
			}
			a := ex.readSlice(s, I(int64(j)))
			b := ex.readSlice(s, I(int64(j-1)))
			ex.writeSlice(fr, s, I(int64(j)), b, cont)
			ex.writeSlice(fr, s, I(int64(j-1)), a, cont)
		}
	}
}

// mapIteConst applies f to the constant leaves of an ite-tree (fails on any other leaf).
func mapIteConst(t *T, f func(*T) *T, depth int) (*T, bool) {
	if isC(t) {
		return f(t), true
	}
	if t.op == "ite" && depth < 64 {
		a, ok1 := mapIteConst(t.a[1], f, depth+1)
		b, ok2 := mapIteConst(t.a[2], f, depth+1)
		if ok1 && ok2 {
			return Ite(t.a[0], a, b), true
		}
	}
	return nil, false
}


// angleOf: angle variable id -> (y, x) of the Atan2 that produced it.
var angleOf = map[int][2]*T{}

// linAngle decomposes t = alpha*theta + beta with theta an angle variable.
func linAngle(t *T) (theta *T, alpha, beta *big.Rat, ok bool) {
	if _, is := angleOf[t.id]; is && t.op == "var" {
		return t, big.NewRat(1, 1), new(big.Rat), true
	}
	switch {
	case t.op == "+" && len(t.a) == 2:
		if isC(t.a[1]) {
			if th, al, be, ok := linAngle(t.a[0]); ok {
				return th, al, new(big.Rat).Add(be, t.a[1].r), true
			}
		}
		if isC(t.a[0]) {
			if th, al, be, ok := linAngle(t.a[1]); ok {
				return th, al, new(big.Rat).Add(be, t.a[0].r), true
			}
		}
	case t.op == "-" && len(t.a) == 2 && isC(t.a[1]):
		if th, al, be, ok := linAngle(t.a[0]); ok {
			return th, al, new(big.Rat).Sub(be, t.a[1].r), true
		}
	case t.op == "*" && len(t.a) == 2:
		x, c := t.a[0], t.a[1]
		if isC(x) {
			x, c = c, x
		}
		if isC(c) {
			if th, al, be, ok := linAngle(x); ok {
				return th, new(big.Rat).Mul(al, c.r), new(big.Rat).Mul(be, c.r), true
			}
		}
	}
	return nil, nil, nil, false
}

// cosThird: Cos(theta/3 + 2k*pi/3) for an angle variable theta = Atan2(y, x), k in {-1,0,1}.
// c is the unique real with 4c^3 - 3c = cos(theta) = x/hypot(x,y) inside the interval of the branch.
func (ex *Exec) cosThird(arg *T, g *T) (*T, bool) {
	th, al, be, ok := linAngle(arg)
	if !ok || al.Cmp(big.NewRat(1, 3)) != 0 {
		return nil, false
	}
	bf := ratToFloat(be)
	k := 99
	for _, kk := range []int{-1, 0, 1} {
		if math.Abs(bf-float64(kk)*2*math.Pi/3) < 1e-9 {
			k = kk
		}
	}
	if k == 99 {
		return nil, false
	}
	yx := angleOf[th.id]
	y, x := yx[0], yx[1]
	ex.stub("math.Cos((Atan2(y,x) + 2k*pi)/3), k in {-1,0,1} = c with (4c^3 - 3c)*hypot(x,y) = x and c in the interval of the branch (exact real value; math.Pi taken as the real pi; Atan2(-0, x<0) = -pi not modelled)")
	ex.inexact["math.Cos of a third of an angle (exact real value instead of the rounded float)"]++
	c := RealVar(ex.freshName("cos3"))
	h := RealVar(ex.freshName("hyp3"))
	half := R(big.NewRat(1, 2))
	mhalf := R(big.NewRat(-1, 2))
	one, mone, zero := RI(1), RI(-1), RI(0)
	in := func(lo, hi *T) *T { return And(Lt(lo, c), Lt(c, hi)) }
	var ypos, yneg, th0, thpi *T
	switch k {
	case 0:
		ypos, yneg, th0, thpi = in(half, one), in(half, one), Eq(c, one), Eq(c, half)
	case 1:
		ypos, yneg, th0, thpi = in(mone, mhalf), in(mhalf, half), Eq(c, mhalf), Eq(c, mone)
	default:
		ypos, yneg, th0, thpi = in(mhalf, half), in(mone, mhalf), Eq(c, mhalf), Eq(c, half)
	}
	c3 := Mul(Mul(c, c), c)
	poly := Sub(Mul(RI(4), c3), Mul(RI(3), c))
	def := And(And(Le(zero, h), Eq(Mul(h, h), Add(Mul(x, x), Mul(y, y)))),
		Ite(Lt(zero, y), And(ypos, Eq(Mul(poly, h), x)),
			Ite(Lt(y, zero), And(yneg, Eq(Mul(poly, h), x)),
				Ite(Lt(x, zero), thpi, th0))))
	ex.assumes = append(ex.assumes, Or(Not(g), def))
	return c, true
}


// solve3Summary replaces a call of geom.solve3 by its contract -- the contract that the obligations
// rootfinder-linear-quadratic, rootfinder-cubic-cardano and rootfinder-cubic-trig establish for the real
// body (assume-guarantee): with the effective degree chosen by the code's epsilon test (|coefficient| <
// 1e-7 counts as zero), the result is nil for the all-zero polynomial, otherwise a slice of 0..3 values,
// each of which is a root of the truncated polynomial, and every real root of the truncated polynomial is
// among them. The universally quantified completeness part is instantiated at the terms the harness
// registered with vhInstantiate (any instance of a valid contract is a valid consequence).
func (ex *Exec) solve3Summary(args []Value, g *T) Value {
	co := args[0].(SliceV)
	var c [4]*T
	for i := range c {
		c[i] = ex.readSlice(co, I(int64(i))).(*T)
	}
	ex.stub("geom.solve3 = its contract as established by the rootfinder-* obligations of this check (sound and complete for the epsilon-truncated polynomial; completeness instantiated at the harness' registered terms)")
	eps := RF(1e-7)
	z := func(x *T) *T { return And(Lt(x, eps), Lt(Neg(eps), x)) } // aeq0
	z3, z2, z1, z0 := z(c[3]), z(c[2]), z(c[1]), z(c[0])
	// truncated polynomial at x
	pt := func(x *T) *T {
		x2 := Mul(x, x)
		x3 := Mul(x2, x)
		cubic := Add(Add(Add(Mul(c[3], x3), Mul(c[2], x2)), Mul(c[1], x)), c[0])
		quad := Add(Add(Mul(c[2], x2), Mul(c[1], x)), c[0])
		lin := Add(Mul(c[1], x), c[0])
		return Ite(Not(z3), cubic, Ite(Not(z2), quad, Ite(Not(z1), lin, c[0])))
	}
	isNil := AndN(z3, z2, z1, z0)
	constant := AndN(z3, z2, z1, Not(z0))
	n := IntVar(ex.freshName("nroots"), 0, 3)
	var r [3]*T
	cells := make([]Value, 3)
	cons := []*T{Implies(Or(isNil, constant), Eq(n, I(0))),
		Implies(AndN(z3, z2, Not(z1)), Eq(n, I(1))), // linear: exactly one value
		Implies(And(z3, Not(z2)), Le(n, I(2)))}      // quadratic: at most two
	for i := range r {
		r[i] = RealVar(ex.freshName("root"))
		cells[i] = r[i]
		cons = append(cons, Implies(Lt(I(int64(i)), n), Eq(pt(r[i]), RI(0))))
	}
	for _, x := range ex.instTerms {
		hit := FF
		for i := range r {
			hit = Or(hit, And(Lt(I(int64(i)), n), Eq(x, r[i])))
		}
		cons = append(cons, Implies(AndN(Not(isNil), Eq(pt(x), RI(0))), hit))
	}
	ex.assumes = append(ex.assumes, Or(Not(g), AndN(cons...)))
	return SliceV{[]SC{{Not(isNil), newObj(ArrayV{cells}, nil)}}, I(0), Ite(isNil, I(0), n), I(3)}
}
