package main

import (
	"fmt"
	"go/types"

	"golang.org/x/tools/go/ssa"
)

type Value interface{}

type Obj struct {
	id     int
	v      Value
	typ    types.Type
	name   string
	shared bool // package-level variable, or allocated while package initialisers ran (reachable from one)
}

// allocShared is true while package initialisers run: everything allocated then is shared state.
var allocShared bool

// PC is one guarded pointer target: obj == nil means the nil pointer.
type PC struct {
	g    *T
	obj  *Obj
	path []int
}
type Ptr struct{ c []PC }

type StructV struct{ f []Value }
type ArrayV struct{ e []Value }
type SC struct {
	g   *T
	obj *Obj
}
type SliceV struct {
	c             []SC
	off, len, cap *T
}
type MC struct {
	g *T
	m *MapObj
}
type MapV struct{ c []MC }
type FC struct {
	g      *T
	fn     *ssa.Function
	env    []Value
	native func(fr *Frame, args []Value, g *T) Value // engine-provided function value (sort.Slice swapper)
}
type FuncV struct{ c []FC }
type IC struct {
	g *T
	t types.Type
	v Value
}
type IfaceV struct{ c []IC }
type TupleV []Value
type OpaqueV struct{ tag string }

var nobj int

func newObj(v Value, t types.Type) *Obj {
	nobj++
	return &Obj{id: nobj, v: v, typ: t, shared: allocShared}
}

func samePath(a, b []int) bool {
	if len(a) != len(b) {
		return false
	}
	for i := range a {
		if a[i] != b[i] {
			return false
		}
	}
	return true
}

func normPtr(c []PC) Ptr {
	var out []PC
	for _, x := range c {
		if x.g == FF {
			continue
		}
		found := false
		for i := range out {
			if out[i].obj == x.obj && samePath(out[i].path, x.path) {
				out[i].g = Or(out[i].g, x.g)
				found = true
				break
			}
		}
		if !found {
			out = append(out, x)
		}
	}
	return Ptr{out}
}

func nilPtr() Ptr             { return Ptr{[]PC{{g: TT}}} }
func ptrTo(o *Obj) Ptr        { return Ptr{[]PC{{g: TT, obj: o}}} }
func funcOf(f *ssa.Function) FuncV { return FuncV{[]FC{{g: TT, fn: f}}} }

type unsupported struct{ msg string }

func unsup(format string, a ...any) { panic(unsupported{fmt.Sprintf(format, a...)}) }

func isUint64(t types.Type) bool {
	b, ok := t.Underlying().(*types.Basic)
	return ok && b.Kind() == types.Uint64
}

func zero(t types.Type) Value {
	switch u := t.Underlying().(type) {
	case *types.Basic:
		switch {
		case u.Info()&types.IsBoolean != 0:
			return FF
		case u.Kind() == types.Uint64:
			return BV(0)
		case u.Info()&types.IsInteger != 0:
			return I(0)
		case u.Info()&types.IsFloat != 0:
			return RI(0)
		case u.Info()&types.IsString != 0:
			return S("")
		case u.Kind() == types.UnsafePointer:
			return nilPtr()
		case u.Kind() == types.UntypedNil:
			return nilPtr()
		}
	case *types.Pointer:
		return nilPtr()
	case *types.Struct:
		s := StructV{make([]Value, u.NumFields())}
		for i := range s.f {
			s.f[i] = zero(u.Field(i).Type())
		}
		return s
	case *types.Array:
		a := ArrayV{make([]Value, u.Len())}
		for i := range a.e {
			a.e[i] = zero(u.Elem())
		}
		return a
	case *types.Slice:
		return SliceV{nil, I(0), I(0), I(0)}
	case *types.Map:
		return MapV{}
	case *types.Signature:
		return FuncV{}
	case *types.Interface:
		return IfaceV{}
	case *types.Chan:
		return OpaqueV{"chan"}
	case *types.Tuple:
		r := make(TupleV, u.Len())
		for i := range r {
			r[i] = zero(u.At(i).Type())
		}
		return r
	}
	unsup("zero: unsupported type %v", t)
	return nil
}

// merge returns ite(g, a, b)
func merge(g *T, a, b Value) Value {
	if g == TT {
		return a
	}
	if g == FF {
		return b
	}
	if a == nil {
		return b
	}
	if b == nil {
		return a
	}
	switch x := a.(type) {
	case *T:
		y, ok := b.(*T)
		if !ok {
			unsup("merge: %T with %T", a, b)
		}
		return Ite(g, x, y)
	case Ptr:
		y := b.(Ptr)
		c := make([]PC, 0, len(x.c)+len(y.c))
		for _, p := range x.c {
			c = append(c, PC{And(g, p.g), p.obj, p.path})
		}
		ng := Not(g)
		for _, p := range y.c {
			c = append(c, PC{And(ng, p.g), p.obj, p.path})
		}
		return normPtr(c)
	case StructV:
		y := b.(StructV)
		r := StructV{make([]Value, len(x.f))}
		for i := range x.f {
			r.f[i] = merge(g, x.f[i], y.f[i])
		}
		return r
	case ArrayV:
		y := b.(ArrayV)
		r := ArrayV{make([]Value, len(x.e))}
		for i := range x.e {
			r.e[i] = merge(g, x.e[i], y.e[i])
		}
		return r
	case SliceV:
		y := b.(SliceV)
		var c []SC
		add := func(gg *T, o *Obj) {
			if gg == FF {
				return
			}
			for i := range c {
				if c[i].obj == o {
					c[i].g = Or(c[i].g, gg)
					return
				}
			}
			c = append(c, SC{gg, o})
		}
		for _, s := range x.c {
			add(And(g, s.g), s.obj)
		}
		ng := Not(g)
		for _, s := range y.c {
			add(And(ng, s.g), s.obj)
		}
		return SliceV{c, Ite(g, x.off, y.off), Ite(g, x.len, y.len), Ite(g, x.cap, y.cap)}
	case MapV:
		y := b.(MapV)
		var c []MC
		add := func(gg *T, m *MapObj) {
			if gg == FF {
				return
			}
			for i := range c {
				if c[i].m == m {
					c[i].g = Or(c[i].g, gg)
					return
				}
			}
			c = append(c, MC{gg, m})
		}
		for _, s := range x.c {
			add(And(g, s.g), s.m)
		}
		ng := Not(g)
		for _, s := range y.c {
			add(And(ng, s.g), s.m)
		}
		return MapV{c}
	case FuncV:
		y := b.(FuncV)
		var c []FC
		for _, s := range x.c {
			if gg := And(g, s.g); gg != FF {
				c = append(c, FC{gg, s.fn, s.env, s.native})
			}
		}
		ng := Not(g)
		for _, s := range y.c {
			if gg := And(ng, s.g); gg != FF {
				c = append(c, FC{gg, s.fn, s.env, s.native})
			}
		}
		return FuncV{c}
	case IfaceV:
		y := b.(IfaceV)
		var c []IC
		for _, s := range x.c {
			if gg := And(g, s.g); gg != FF {
				c = append(c, IC{gg, s.t, s.v})
			}
		}
		ng := Not(g)
		for _, s := range y.c {
			if gg := And(ng, s.g); gg != FF {
				c = append(c, IC{gg, s.t, s.v})
			}
		}
		return IfaceV{c}
	case TupleV:
		y := b.(TupleV)
		r := make(TupleV, len(x))
		for i := range x {
			r[i] = merge(g, x[i], y[i])
		}
		return r
	case *IterV:
		return x
	case OpaqueV:
		return x
	case *ssa.Builtin:
		return x
	}
	unsup("merge: unsupported %T", a)
	return nil
}

func eqv(a, b Value) *T {
	switch x := a.(type) {
	case *T:
		return Eq(x, b.(*T))
	case Ptr:
		y := b.(Ptr)
		r := FF
		for _, p := range x.c {
			for _, q := range y.c {
				if p.obj == q.obj && samePath(p.path, q.path) {
					r = Or(r, And(p.g, q.g))
				}
			}
		}
		return r
	case StructV:
		y := b.(StructV)
		r := TT
		for i := range x.f {
			r = And(r, eqv(x.f[i], y.f[i]))
		}
		return r
	case ArrayV:
		y := b.(ArrayV)
		r := TT
		for i := range x.e {
			r = And(r, eqv(x.e[i], y.e[i]))
		}
		return r
	case IfaceV:
		y := b.(IfaceV)
		// both nil
		xn, yn := TT, TT
		for _, s := range x.c {
			xn = And(xn, Not(s.g))
		}
		for _, s := range y.c {
			yn = And(yn, Not(s.g))
		}
		r := And(xn, yn)
		for _, s := range x.c {
			for _, t := range y.c {
				if types.Identical(s.t, t.t) {
					r = Or(r, AndN(s.g, t.g, eqv(s.v, t.v)))
				}
			}
		}
		return r
	case MapV:
		// only comparison with nil is legal
		y := b.(MapV)
		xn, yn := TT, TT
		for _, s := range x.c {
			xn = And(xn, Not(s.g))
		}
		for _, s := range y.c {
			yn = And(yn, Not(s.g))
		}
		return And(xn, yn)
	case FuncV:
		y := b.(FuncV)
		xn, yn := TT, TT
		for _, s := range x.c {
			xn = And(xn, Not(s.g))
		}
		for _, s := range y.c {
			yn = And(yn, Not(s.g))
		}
		return And(xn, yn)
	case SliceV:
		y := b.(SliceV)
		xn, yn := TT, TT
		for _, s := range x.c {
			xn = And(xn, Not(s.g))
		}
		for _, s := range y.c {
			yn = And(yn, Not(s.g))
		}
		return And(xn, yn)
	}
	unsup("eqv: unsupported %T", a)
	return nil
}

func getPath(v Value, path []int) Value {
	for _, i := range path {
		switch x := v.(type) {
		case StructV:
			v = x.f[i]
		case ArrayV:
			v = x.e[i]
		default:
			panic(fmt.Sprintf("getPath through %T", v))
		}
	}
	return v
}

func setPath(v Value, path []int, nv Value, g *T) Value {
	if len(path) == 0 {
		return merge(g, nv, v)
	}
	i := path[0]
	switch x := v.(type) {
	case StructV:
		r := StructV{append([]Value(nil), x.f...)}
		r.f[i] = setPath(x.f[i], path[1:], nv, g)
		return r
	case ArrayV:
		r := ArrayV{append([]Value(nil), x.e...)}
		r.e[i] = setPath(x.e[i], path[1:], nv, g)
		return r
	}
	panic(fmt.Sprintf("setPath through %T", v))
}

func sameV(a, b Value) bool {
	switch x := a.(type) {
	case *T:
		y, ok := b.(*T)
		return ok && x == y
	case Ptr:
		y, ok := b.(Ptr)
		if !ok || len(x.c) != len(y.c) {
			return false
		}
		for i := range x.c {
			if x.c[i].g != y.c[i].g || x.c[i].obj != y.c[i].obj || !samePath(x.c[i].path, y.c[i].path) {
				return false
			}
		}
		return true
	case StructV:
		y, ok := b.(StructV)
		if !ok || len(x.f) != len(y.f) {
			return false
		}
		if len(x.f) > 0 && &x.f[0] == &y.f[0] {
			return true
		}
		for i := range x.f {
			if !sameV(x.f[i], y.f[i]) {
				return false
			}
		}
		return true
	case ArrayV:
		y, ok := b.(ArrayV)
		if !ok || len(x.e) != len(y.e) {
			return false
		}
		if len(x.e) > 0 && &x.e[0] == &y.e[0] {
			return true
		}
		for i := range x.e {
			if !sameV(x.e[i], y.e[i]) {
				return false
			}
		}
		return true
	case SliceV:
		y, ok := b.(SliceV)
		if !ok || len(x.c) != len(y.c) || x.off != y.off || x.len != y.len || x.cap != y.cap {
			return false
		}
		for i := range x.c {
			if x.c[i] != y.c[i] {
				return false
			}
		}
		return true
	case MapV:
		y, ok := b.(MapV)
		if !ok || len(x.c) != len(y.c) {
			return false
		}
		for i := range x.c {
			if x.c[i] != y.c[i] {
				return false
			}
		}
		return true
	case FuncV:
		y, ok := b.(FuncV)
		if !ok || len(x.c) != len(y.c) {
			return false
		}
		for i := range x.c {
			if x.c[i].g != y.c[i].g || x.c[i].fn != y.c[i].fn || len(x.c[i].env) != len(y.c[i].env) {
				return false
			}
			for j := range x.c[i].env {
				if !sameV(x.c[i].env[j], y.c[i].env[j]) {
					return false
				}
			}
		}
		return true
	case IfaceV:
		y, ok := b.(IfaceV)
		if !ok || len(x.c) != len(y.c) {
			return false
		}
		for i := range x.c {
			if x.c[i].g != y.c[i].g || x.c[i].t != y.c[i].t || !sameV(x.c[i].v, y.c[i].v) {
				return false
			}
		}
		return true
	case TupleV:
		y, ok := b.(TupleV)
		if !ok || len(x) != len(y) {
			return false
		}
		for i := range x {
			if !sameV(x[i], y[i]) {
				return false
			}
		}
		return true
	case *IterV:
		y, ok := b.(*IterV)
		return ok && x == y
	case OpaqueV:
		y, ok := b.(OpaqueV)
		return ok && x == y
	case *ssa.Builtin:
		return a == b
	case nil:
		return b == nil
	}
	return false
}
