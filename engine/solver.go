package main

import (
	"bufio"
	"bytes"
	"context"
	"fmt"
	"io"
	"os"
	"os/exec"
	"path/filepath"
	"strings"
	"sync"
	"time"
)

// Solver is the persistent incremental z3 used only for pruning infeasible guards while encoding.
type Solver struct {
	cmd      *exec.Cmd
	in       io.WriteCloser
	out      *bufio.Scanner
	lines    chan string
	hardMs   int
	seq      int
	timeoutMs int
	restarts int
	p        *printer
	nvarsOut int
	nassOut  int
	checks   int
	unsat    int
	unknown  int
	spent    time.Duration
	cache    map[*T]bool
	dead     bool
	models   []*cachedModel
	hits     int
}

// cachedModel is a model returned by an earlier sat answer; a guard that evaluates to true under a
// cached model that still satisfies every assumption is feasible without asking the solver.
type cachedModel struct {
	ev   *evaluator
	nass int
	ok   bool
}

func (s *Solver) modelHit(ex *Exec, g *T) bool {
	for i := len(s.models) - 1; i >= 0; i-- {
		m := s.models[i]
		for m.ok && m.nass < len(ex.assumes) {
			if !m.ev.b(ex.assumes[m.nass]) {
				m.ok = false
			}
			m.nass++
		}
		if !m.ok {
			s.models = append(s.models[:i], s.models[i+1:]...)
			continue
		}
		if m.ev.b(g) {
			return true
		}
	}
	return false
}

// restart replaces a hung solver process by a fresh one; definitions and assumptions are re-sent
// lazily by the next feasibility check (printer state is reset), verdict cache and models are kept.
func (s *Solver) restart() bool {
	if s.restarts >= 200 {
		return false
	}
	n := newSolver(s.timeoutMs)
	if n == nil {
		return false
	}
	s.cmd.Process.Kill()
	go s.cmd.Wait()
	s.cmd, s.in, s.out, s.lines, s.p = n.cmd, n.in, n.out, n.lines, n.p
	s.nvarsOut, s.nassOut = 0, 0
	s.restarts++
	s.dead = false
	return true
}

func newSolver(timeoutMs int) *Solver {
	cmd := exec.Command("z3", "-in")
	in, _ := cmd.StdinPipe()
	out, _ := cmd.StdoutPipe()
	if err := cmd.Start(); err != nil {
		return nil
	}
	fmt.Fprintf(in, "(set-option :timeout %d)\n%s", timeoutMs, smtPrelude)
	sc := bufio.NewScanner(out)
	sc.Buffer(make([]byte, 1<<20), 1<<26)
	s := &Solver{cmd: cmd, in: in, out: sc, p: newPrinter(), cache: map[*T]bool{}, lines: make(chan string, 1024), hardMs: hardDeadline(timeoutMs), timeoutMs: timeoutMs}
	ch := s.lines
	go func() {
		for sc.Scan() {
			ch <- sc.Text()
		}
		close(ch)
	}()
	return s
}

// readLine returns the next output line, or ok=false if the solver does not answer within the hard
// deadline (z3 does not always honour :timeout) or has exited; the solver is then abandoned and
// every later feasibility question is answered "feasible" (sound: nothing is pruned).
func (s *Solver) readLine() (string, bool) {
	select {
	case l, ok := <-s.lines:
		return l, ok
	case <-time.After(time.Duration(s.hardMs) * time.Millisecond):
		if !s.restart() {
			s.dead = true
			s.cmd.Process.Kill()
		}
		return "", false
	}
}

func (s *Solver) close() {
	if s == nil {
		return
	}
	s.in.Close()
	s.cmd.Process.Kill()
	s.cmd.Wait()
}

// feasible reports whether g is satisfiable together with the assumptions so far (unknown => true).
func (s *Solver) feasible(ex *Exec, g *T) bool { return s.feasible0(ex, g, false) }

func (s *Solver) feasible0(ex *Exec, g *T, force bool) bool {
	if g == TT && !force {
		return true
	}
	if g == FF {
		return false
	}
	if s.dead {
		return true
	}
	if r, ok := s.cache[g]; ok && !force {
		if !r {
			return false // unsat stays unsat: assumptions only grow
		}
		return true
	}
	if !force && s.modelHit(ex, g) {
		s.hits++
		s.cache[g] = true
		return true
	}
	t0 := time.Now()
	sb := s.p.sb
	sb.Reset()
	s.nvarsOut = s.p.declVars(s.nvarsOut)
	for ; s.nassOut < len(ex.assumes); s.nassOut++ {
		r := s.p.ref(ex.assumes[s.nassOut])
		fmt.Fprintf(sb, "(assert %s)\n", r)
	}
	r := s.p.ref(g)
	// variables may have been created while printing? no: printing creates no terms
	s.nvarsOut = s.p.declVarsTo(sb, s.nvarsOut)
	s.seq++
	endMark := fmt.Sprintf("vh-e %d", s.seq)
	fmt.Fprintf(sb, "(push)\n(assert %s)\n(check-sat)\n(echo \"%s\")\n", r, endMark)
	if lf := os.Getenv("GOSMT_PRUNELOG"); lf != "" {
		f, _ := os.OpenFile(lf, os.O_APPEND|os.O_CREATE|os.O_WRONLY, 0o644)
		f.WriteString(sb.String())
		f.Close()
	}
	if _, err := io.WriteString(s.in, sb.String()); err != nil {
		s.dead = true
		return true
	}
	// Everything up to the end marker belongs to this exchange (definitions, the guard assertion, the
	// check). An (error line anywhere in it - z3 reports a timeout during an (assert as
	// "canceled" and then still answers the check-sat, without the guard - makes the answer unknown.
	ans := ""
	sawError := false
	for {
		l, ok := s.readLine()
		if !ok {
			s.unknown++
			return true
		}
		tl := strings.Trim(strings.TrimSpace(l), "\"")
		if tl == endMark {
			break
		}
		if tl == "sat" || tl == "unsat" || tl == "unknown" {
			ans = tl
		}
		if strings.HasPrefix(tl, "(error") {
			sawError = true
			if !strings.Contains(tl, "canceled") && !strings.Contains(tl, "timeout") {
				fmt.Fprintln(os.Stderr, "pruning solver:", tl)
			}
		}
	}
	if sawError || ans == "" {
		ans = "unknown"
	}
	if ans == "unknown" {
		// z3 4.8.12's incremental core is not reliable after an interrupted check (observed: after one
		// timeout every later check of the same process answered unsat, even for `0 < h` with h in
		// [0,64]). The process is therefore replaced after every unknown answer; definitions and
		// assumptions are re-sent lazily. If no replacement can be started pruning is switched off.
		s.checks++
		s.unknown++
		s.spent += time.Since(t0)
		if !s.restart() {
			s.dead = true
			s.cmd.Process.Kill()
		}
		return true
	}
	s.checks++
	if ans == "sat" && len(vars) > 0 {
		// fetch the model and cache it
		var q strings.Builder
		q.WriteString("(get-value (")
		for _, v := range vars {
			q.WriteString(v.name)
			q.WriteByte(' ')
		}
		q.WriteString("))\n(echo \"vh-end-model\")\n")
		io.WriteString(s.in, q.String())
		var mt strings.Builder
		for {
			l, ok := s.readLine()
			if !ok {
				return true
			}
			if l == "vh-end-model" {
				break
			}
			mt.WriteString(l)
			mt.WriteByte('\n')
		}
		if !strings.Contains(mt.String(), "(error") {
			cm := &cachedModel{ev: newEvaluator(parseModel(mt.String())), ok: true}
			s.models = append(s.models, cm)
			if len(s.models) > 48 {
				s.models = s.models[1:]
			}
		}
	}
	io.WriteString(s.in, "(pop)\n")
	s.spent += time.Since(t0)
	switch ans {
	case "unsat":
		s.unsat++
		s.cache[g] = false
		return false
	case "sat":
		s.cache[g] = true
	case "unknown":
		s.unknown++
	default:
		s.dead = true
	}
	return true
}

func (p *printer) declVarsTo(sb *strings.Builder, from int) int { return p.declVars(from) }

// ---- final queries: one fresh solver process per query, run in parallel ----

type QResult struct {
	Kind    string            `json:"kind"`
	Label   string            `json:"label"`
	Verdict string            `json:"verdict"` // sat | unsat | unknown | error
	Secs    float64           `json:"secs"`
	Model   map[string]string `json:"model,omitempty"`
	Solver  string            `json:"solver"`
	Trivial bool              `json:"trivial"` // decided by the simplifier alone
	Nodes   int               `json:"nodes"`
	File    string            `json:"file,omitempty"`
}

func buildQueryText(assumes []*T, cond *T, cvc5 bool) string {
	p := newPrinter()
	p.cvc5 = cvc5
	var body strings.Builder
	p.sb = &body
	var refs []string
	for _, a := range assumes {
		refs = append(refs, p.ref(a))
	}
	rc := p.ref(cond)
	var out strings.Builder
	if cvc5 {
		out.WriteString("(set-logic ALL)\n(set-option :produce-models true)\n")
	}
	out.WriteString(smtPrelude)
	dp := newPrinter()
	dp.declVars(0)
	out.WriteString(dp.sb.String())
	out.WriteString(body.String())
	for _, r := range refs {
		fmt.Fprintf(&out, "(assert %s)\n", r)
	}
	fmt.Fprintf(&out, "(assert %s)\n(check-sat)\n", rc)
	out.WriteString("(get-value (")
	n := 0
	for _, v := range vars {
		out.WriteString(v.name)
		out.WriteByte(' ')
		n++
	}
	if n == 0 {
		out.WriteString("true")
	}
	out.WriteString("))\n")
	return out.String()
}

func runSolverFile(solver string, file string, timeout time.Duration) (string, string) {
	ctx, cancel := context.WithTimeout(context.Background(), timeout+5*time.Second)
	defer cancel()
	var cmd *exec.Cmd
	secs := int(timeout.Seconds())
	switch solver {
	case "z3", "z3-new":
		cmd = exec.CommandContext(ctx, solver, fmt.Sprintf("-T:%d", secs), file)
	case "cvc5":
		cmd = exec.CommandContext(ctx, "cvc5", fmt.Sprintf("--tlimit=%d", secs*1000), file)
	}
	var outb bytes.Buffer
	cmd.Stdout = &outb
	cmd.Stderr = &outb
	cmd.Run()
	text := outb.String()
	verdict := "unknown"
	rest := text
	for _, line := range strings.SplitN(text, "\n", 4) {
		l := strings.TrimSpace(line)
		if l == "sat" || l == "unsat" || l == "unknown" || l == "timeout" {
			verdict = l
			if l == "timeout" {
				verdict = "unknown"
			}
			if i := strings.Index(text, l+"\n"); i >= 0 {
				rest = text[i+len(l)+1:]
			}
			break
		}
	}
	if verdict == "unsat" {
		// an (error before the verdict makes it inconclusive; the get-value error after unsat is expected
		if i := strings.Index(text, "(error"); i >= 0 && i < strings.Index(text, "unsat") {
			verdict = "error"
		}
	} else if verdict == "sat" {
		if i := strings.Index(text, "(error"); i >= 0 && i < strings.Index(text, "sat") {
			verdict = "error"
		}
	} else if strings.Contains(text, "(error") && !strings.Contains(text, "timeout") {
		if !strings.Contains(text, "model is not available") {
			verdict = "unknown"
		}
	}
	return verdict, rest
}

func solveQueries(ex *Exec, qs []Query, dir string, timeout time.Duration, workers int, solver string, cross bool, oneShot bool) []QResult {
	res := make([]QResult, len(qs))
	var pending []int
	for i, q := range qs {
		res[i] = QResult{Kind: q.kind, Label: q.label, Solver: solver}
		if q.cond == FF {
			res[i].Verdict = "unsat"
			res[i].Trivial = true
			continue
		}
		if q.cond == TT {
			allT := true
			for _, a := range ex.assumes {
				if a != TT {
					allT = false
				}
			}
			if allT {
				res[i].Verdict = "sat"
				res[i].Trivial = true
				res[i].Model = map[string]string{}
				continue
			}
		}
		pending = append(pending, i)
	}
	if len(pending) == 0 {
		return res
	}
	if workers < 1 {
		workers = 1
	}
	if oneShot {
		// one fresh, non-incremental solver run per query (no push/pop): z3 then applies its full
		// tactic pipeline (nlsat for non-linear real arithmetic), which the incremental core does not
		var wg sync.WaitGroup
		sem := make(chan struct{}, workers)
		for _, i := range pending {
			file := filepath.Join(dir, fmt.Sprintf("q%03d.smt2", i))
			text := buildQueryText(ex.assumes, qs[i].cond, false)
			os.WriteFile(file, []byte(text), 0o644)
			res[i].Nodes = strings.Count(text, "(declare-const n")
			res[i].File = file
			wg.Add(1)
			go func(i int, file string) {
				defer wg.Done()
				sem <- struct{}{}
				defer func() { <-sem }()
				t0 := time.Now()
				v, rest := runSolverFile(solver, file, timeout)
				res[i].Verdict = v
				res[i].Secs = time.Since(t0).Seconds()
				if v == "sat" {
					res[i].Model = parseModel(rest)
					if why := modelRejected(ex.assumes, qs[i].cond, res[i].Model); why != "" && !hasAlgebraic(rest) {
						res[i].Verdict = "unknown"
						res[i].Solver += " (sat answer rejected: " + why + ")"
					}
				}
			}(i, file)
		}
		wg.Wait()
		return res
	}
	nb := min(workers, len(pending))
	batches := make([][]int, nb)
	for k, i := range pending {
		batches[k%nb] = append(batches[k%nb], i)
	}
	var wg sync.WaitGroup
	for b, idxs := range batches {
		// one solver process per batch: shared definitions at top level, one push/pop scope per query
		file := filepath.Join(dir, fmt.Sprintf("batch%02d.smt2", b))
		text, nodes := buildBatchText(ex.assumes, qs, idxs, timeout, false)
		os.WriteFile(file, []byte(text), 0o644)
		for k, i := range idxs {
			res[i].Nodes = nodes[k]
			res[i].File = file
		}
		var file5 string
		if cross {
			file5 = filepath.Join(dir, fmt.Sprintf("batch%02d.cvc5.smt2", b))
			t5, _ := buildBatchText(ex.assumes, qs, idxs, timeout, true)
			os.WriteFile(file5, []byte(t5), 0o644)
		}
		wg.Add(1)
		go func(idxs []int, file, file5 string) {
			defer wg.Done()
			ans := runBatch(solver, file, timeout, len(idxs))
			// an interrupted check can leave z3's incremental core in a state in which later checks of the
			// same process answer unsat spuriously: every query AFTER an undecided one is asked again in a
			// fresh process (repeatedly, the batch shrinks each time)
			for start := 0; start < len(idxs); {
				bad := -1
				for k := start; k < len(idxs); k++ {
					if ans[k].verdict != "sat" && ans[k].verdict != "unsat" {
						bad = k
						break
					}
				}
				if bad < 0 || bad == len(idxs)-1 {
					break
				}
				rest := idxs[bad+1:]
				rfile := fmt.Sprintf("%s.retry%d.smt2", strings.TrimSuffix(file, ".smt2"), bad)
				text, _ := buildBatchText(ex.assumes, qs, rest, timeout, false)
				os.WriteFile(rfile, []byte(text), 0o644)
				rans := runBatch(solver, rfile, timeout, len(rest))
				copy(ans[bad+1:], rans)
				start = bad + 1
			}
			for k, i := range idxs {
				res[i].Verdict = ans[k].verdict
				res[i].Secs = ans[k].secs
				if ans[k].verdict == "sat" {
					res[i].Model = parseModel(ans[k].rest)
					if why := modelRejected(ex.assumes, qs[i].cond, res[i].Model); why != "" {
						// every sat answer is validated: the model must satisfy the assumptions and the query under the
						// engine's own exact evaluator; otherwise the answer is treated as inconclusive
						res[i].Verdict = "unknown"
						res[i].Solver += " (sat answer rejected: " + why + ")"
					}
				}
			}
			if cross {
				for _, other := range []string{"z3-new", "cvc5"} {
					f := file
					if other == "cvc5" {
						f = file5
					}
					a2 := runBatch(other, f, timeout, len(idxs))
					for k, i := range idxs {
						v, v2 := res[i].Verdict, a2[k].verdict
						if (v == "sat" || v == "unsat") && (v2 == "sat" || v2 == "unsat") && v != v2 {
							res[i].Verdict = "error"
							res[i].Solver = fmt.Sprintf("DISAGREEMENT %s=%s %s=%s", solver, v, other, v2)
						} else {
							res[i].Solver += "," + other + "=" + v2
						}
					}
				}
			}
		}(idxs, file, file5)
	}
	wg.Wait()
	return res
}

func buildBatchText(assumes []*T, qs []Query, idxs []int, timeout time.Duration, cvc5 bool) (string, []int) {
	p := newPrinter()
	p.cvc5 = cvc5
	var out strings.Builder
	if cvc5 {
		out.WriteString("(set-logic ALL)\n(set-option :produce-models true)\n(set-option :incremental true)\n")
		fmt.Fprintf(&out, "(set-option :tlimit-per %d)\n", timeout.Milliseconds())
	} else {
		fmt.Fprintf(&out, "(set-option :timeout %d)\n", timeout.Milliseconds())
	}
	out.WriteString(smtPrelude)
	p.declVars(0)
	for _, a := range assumes {
		r := p.ref(a)
		fmt.Fprintf(p.sb, "(assert %s)\n", r)
	}
	var gv strings.Builder
	gv.WriteString("(get-value (")
	n := 0
	for _, v := range vars {
		gv.WriteString(v.name)
		gv.WriteByte(' ')
		n++
	}
	if n == 0 {
		gv.WriteString("true")
	}
	gv.WriteString("))\n")
	nodes := make([]int, len(idxs))
	for k, i := range idxs {
		r := p.ref(qs[i].cond)
		nodes[k] = len(p.defined)
		fmt.Fprintf(p.sb, "(push 1)\n(assert %s)\n(echo \"vh-q %d\")\n(check-sat)\n%s(echo \"vh-end %d\")\n(pop 1)\n", r, k, gv.String(), k)
	}
	out.WriteString(p.sb.String())
	return out.String(), nodes
}

type batchAns struct {
	verdict string
	rest    string
	secs    float64
}

// runBatch runs one solver process over a batch file and splits its output per query. Any (error
// line before the verdict of a query makes that query inconclusive.
func runBatch(solver, file string, timeout time.Duration, n int) []batchAns {
	ans := make([]batchAns, n)
	for i := range ans {
		ans[i].verdict = "unknown"
	}
	total := time.Duration(n)*timeout + 10*time.Second
	ctx, cancel := context.WithTimeout(context.Background(), total)
	defer cancel()
	var cmd *exec.Cmd
	switch solver {
	case "z3", "z3-new":
		cmd = exec.CommandContext(ctx, solver, file)
	case "cvc5":
		cmd = exec.CommandContext(ctx, "cvc5", file)
	}
	stdout, err := cmd.StdoutPipe()
	if err != nil {
		return ans
	}
	cmd.Stderr = cmd.Stdout
	if err := cmd.Start(); err != nil {
		return ans
	}
	sc := bufio.NewScanner(stdout)
	sc.Buffer(make([]byte, 1<<20), 1<<28)
	cur := -1
	t0 := time.Now()
	var rest strings.Builder
	gotVerdict := false
	preErr := false
	for sc.Scan() {
		l := sc.Text()
		tl := strings.TrimSpace(l)
		if strings.HasPrefix(tl, "vh-q ") || strings.HasPrefix(tl, "\"vh-q ") {
			fmt.Sscanf(strings.Trim(tl, "\""), "vh-q %d", &cur)
			t0 = time.Now()
			rest.Reset()
			gotVerdict = false
			continue
		}
		if strings.HasPrefix(tl, "vh-end ") || strings.HasPrefix(tl, "\"vh-end ") {
			if cur >= 0 && cur < n {
				ans[cur].rest = rest.String()
			}
			cur = -1
			continue
		}
		if cur < 0 {
			if strings.HasPrefix(tl, "(error") {
				preErr = true // an error outside any query scope (declarations / assumptions): nothing can be trusted
			}
			continue
		}
		if !gotVerdict {
			switch tl {
			case "sat", "unsat", "unknown":
				ans[cur].verdict = tl
				ans[cur].secs = time.Since(t0).Seconds()
				gotVerdict = true
				continue
			case "timeout":
				ans[cur].verdict = "unknown"
				ans[cur].secs = time.Since(t0).Seconds()
				gotVerdict = true
				continue
			}
			if strings.HasPrefix(tl, "(error") {
				ans[cur].verdict = "error"
				ans[cur].secs = time.Since(t0).Seconds()
				gotVerdict = true
			}
			continue
		}
		rest.WriteString(l)
		rest.WriteByte('\n')
	}
	cmd.Wait()
	if preErr {
		for i := range ans {
			ans[i].verdict = "error"
		}
	}
	return ans
}

// lastModelFor returns an evaluator for a cached model that satisfies all assumptions and g.
func (s *Solver) lastModelFor(ex *Exec, g *T) *evaluator {
	for pass := 0; pass < 2; pass++ {
		for i := len(s.models) - 1; i >= 0; i-- {
			m := s.models[i]
			for m.ok && m.nass < len(ex.assumes) {
				if !m.ev.b(ex.assumes[m.nass]) {
					m.ok = false
				}
				m.nass++
			}
			if m.ok && m.ev.b(g) {
				return m.ev
			}
		}
		// no cached model: force a solver call that caches one
		if !s.feasible0(ex, g, true) {
			return nil
		}
	}
	return nil
}


// modelRejected evaluates the assumptions and the query condition under a solver model with the
// engine's exact evaluator; "" means the model is a genuine witness.
func modelRejected(assumes []*T, cond *T, m Model) (why string) {
	defer func() {
		if r := recover(); r != nil {
			why = "" // the evaluator cannot evaluate this formula (e.g. algebraic numbers): keep the solver's answer
		}
	}()
	ev := newEvaluator(m)
	for i, a := range assumes {
		if !ev.b(a) {
			return fmt.Sprintf("assumption %d is false under the model", i)
		}
	}
	if !ev.b(cond) {
		return "the query condition is false under the model"
	}
	return ""
}

func hasAlgebraic(rest string) bool { return strings.Contains(rest, "root-obj") }

func hardDeadline(timeoutMs int) int {
	if v := os.Getenv("GOSMT_HARDMS"); v != "" { // debugging aid: force the watchdog / restart path
		n := 0
		fmt.Sscan(v, &n)
		if n > 0 {
			return n
		}
	}
	return 10*timeoutMs + 2000
}
