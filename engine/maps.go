package main

// Map model: slot table keyed by canonical concrete keys (pointer candidates, small integers,
// constant strings, tuples of those) with a write-log fallback for keys that cannot be
// enumerated (symbolic strings). `range` visits the live keys in an order chosen by fresh
// symbolic pick variables constrained to a permutation.

import (
	"fmt"
	"go/types"
	"strings"
)

type slot struct {
	key     Value // concrete key value
	present *T
	val     Value
}
type logEntry struct {
	g    *T
	key  Value
	val  Value
	kind int // 0 set, 1 delete, 2 clear
}
type MapObj struct {
	id     int
	kt, vt types.Type
	slots  map[string]*slot
	order  []string
	log    []logEntry
	useLog bool
	shared bool
}

func newMap(kt, vt types.Type) *MapObj {
	nobj++
	return &MapObj{id: nobj, kt: kt, vt: vt, slots: map[string]*slot{}, shared: allocShared}
}

type keyCase struct {
	g     *T
	canon string
	key   Value
}

const maxKeyCases = 4096

// keyCases enumerates the concrete values a key may take, with mutually exclusive guards.
func keyCases(key Value) ([]keyCase, bool) {
	switch k := key.(type) {
	case *T:
		switch k.sort {
		case SBool:
			if k == TT || k == FF {
				return []keyCase{{TT, k.op, k}}, true
			}
			return []keyCase{{k, "true", TT}, {Not(k), "false", FF}}, true
		case SInt:
			if isC(k) {
				return []keyCase{{TT, fmt.Sprintf("i%d", k.k), k}}, true
			}
			if k.hi-k.lo < 128 && k.lo > NEG {
				var out []keyCase
				for v := k.lo; v <= k.hi; v++ {
					g := Eq(k, I(v))
					if g != FF {
						out = append(out, keyCase{g, fmt.Sprintf("i%d", v), I(v)})
					}
				}
				return out, true
			}
			return nil, false
		case SStr:
			if isC(k) {
				return []keyCase{{TT, "s" + k.name, k}}, true
			}
			if k.op == "ite" {
				a, ok1 := keyCases(k.a[1])
				b, ok2 := keyCases(k.a[2])
				if ok1 && ok2 {
					return mergeCases(k.a[0], a, b), true
				}
			}
			return nil, false
		case SReal, SBV:
			if isC(k) {
				return []keyCase{{TT, "c" + k.name + fmt.Sprint(k.u), k}}, true
			}
			return nil, false
		}
	case Ptr:
		var out []keyCase
		for _, pc := range k.c {
			id := "pnil"
			if pc.obj != nil {
				id = fmt.Sprintf("p%d%v", pc.obj.id, pc.path)
			}
			out = append(out, keyCase{pc.g, id, Ptr{[]PC{{TT, pc.obj, pc.path}}}})
		}
		return out, true
	case ArrayV:
		return productCases(k.e, func(vs []Value) Value { return ArrayV{vs} })
	case StructV:
		return productCases(k.f, func(vs []Value) Value { return StructV{vs} })
	}
	return nil, false
}

func mergeCases(c *T, a, b []keyCase) []keyCase {
	var out []keyCase
	idx := map[string]int{}
	add := func(g *T, kc keyCase) {
		gg := And(g, kc.g)
		if gg == FF {
			return
		}
		if i, ok := idx[kc.canon]; ok {
			out[i].g = Or(out[i].g, gg)
			return
		}
		idx[kc.canon] = len(out)
		out = append(out, keyCase{gg, kc.canon, kc.key})
	}
	for _, x := range a {
		add(c, x)
	}
	nc := Not(c)
	for _, x := range b {
		add(nc, x)
	}
	return out
}

func productCases(elems []Value, build func([]Value) Value) ([]keyCase, bool) {
	acc := []struct {
		g     *T
		canon []string
		vs    []Value
	}{{TT, nil, nil}}
	for _, e := range elems {
		cs, ok := keyCases(e)
		if !ok {
			return nil, false
		}
		var next []struct {
			g     *T
			canon []string
			vs    []Value
		}
		for _, a := range acc {
			for _, c := range cs {
				g := And(a.g, c.g)
				if g == FF {
					continue
				}
				next = append(next, struct {
					g     *T
					canon []string
					vs    []Value
				}{g, append(append([]string(nil), a.canon...), c.canon), append(append([]Value(nil), a.vs...), c.key)})
			}
		}
		if len(next) > maxKeyCases {
			return nil, false
		}
		acc = next
	}
	out := make([]keyCase, len(acc))
	for i, a := range acc {
		out[i] = keyCase{a.g, "(" + strings.Join(a.canon, ",") + ")", build(a.vs)}
	}
	return out, true
}

func (m *MapObj) toLog() {
	if m.useLog {
		return
	}
	m.useLog = true
	for _, c := range m.order {
		s := m.slots[c]
		if s.present != FF {
			m.log = append(m.log, logEntry{g: s.present, key: s.key, val: s.val})
		}
	}
	m.slots = nil
	m.order = nil
}

func (m *MapObj) lookup(key Value) (Value, *T) {
	zv := zero(m.vt)
	if !m.useLog {
		if cs, ok := keyCases(key); ok {
			var res Value = zv
			okT := FF
			for _, c := range cs {
				s := m.slots[c.canon]
				if s == nil || s.present == FF {
					continue
				}
				h := And(c.g, s.present)
				res = merge(h, s.val, res)
				okT = Or(okT, h)
			}
			return res, okT
		}
		m.toLog()
	}
	var res Value = zv
	okT := FF
	for _, e := range m.log {
		switch e.kind {
		case 0:
			c := And(e.g, eqv(key, e.key))
			if c == FF {
				continue
			}
			res = merge(c, e.val, res)
			okT = Or(okT, c)
		case 1:
			c := And(e.g, eqv(key, e.key))
			if c == FF {
				continue
			}
			res = merge(c, zv, res)
			okT = And(okT, Not(c))
		case 2:
			res = merge(e.g, zv, res)
			okT = And(okT, Not(e.g))
		}
	}
	return res, okT
}

func (m *MapObj) update(g *T, key, val Value) {
	if g == FF {
		return
	}
	if !m.useLog {
		if cs, ok := keyCases(key); ok {
			for _, c := range cs {
				h := And(g, c.g)
				if h == FF {
					continue
				}
				s := m.slots[c.canon]
				if s == nil {
					s = &slot{key: c.key, present: FF, val: zero(m.vt)}
					m.slots[c.canon] = s
					m.order = append(m.order, c.canon)
				}
				s.val = merge(h, val, s.val)
				s.present = Or(s.present, h)
			}
			return
		}
		m.toLog()
	}
	m.log = append(m.log, logEntry{g: g, key: key, val: val})
}

func (m *MapObj) delete(g *T, key Value) {
	if g == FF {
		return
	}
	if !m.useLog {
		if cs, ok := keyCases(key); ok {
			for _, c := range cs {
				if s := m.slots[c.canon]; s != nil {
					s.present = And(s.present, Not(And(g, c.g)))
				}
			}
			return
		}
		m.toLog()
	}
	m.log = append(m.log, logEntry{g: g, key: key, kind: 1})
}

func (m *MapObj) clear(g *T) {
	if g == FF {
		return
	}
	if !m.useLog {
		for _, c := range m.order {
			s := m.slots[c]
			s.present = And(s.present, Not(g))
		}
		return
	}
	m.log = append(m.log, logEntry{g: g, kind: 2})
}

func (m *MapObj) length() *T {
	if m.useLog {
		unsup("len of a map with symbolic (non-enumerable) keys")
	}
	n := I(0)
	for _, c := range m.order {
		n = Add(n, Ite(m.slots[c].present, I(1), I(0)))
	}
	return n
}

func (m *MapObj) clone() *MapObj {
	r := newMap(m.kt, m.vt)
	r.useLog = m.useLog
	r.log = append([]logEntry(nil), m.log...)
	r.order = append([]string(nil), m.order...)
	if m.slots != nil {
		for k, s := range m.slots {
			cp := *s
			r.slots[k] = &cp
		}
	} else {
		r.slots = nil
	}
	return r
}

// IterV is the state of a `range` over a map.
type IterV struct {
	ms    []MC // candidate maps (usually one)
	keys  []Value
	pres  []*T
	picks []*T
	step  int
	kt    types.Type
	vt    types.Type
	str   *T // range over a constant string
	fixed, checked bool
	rev   *T // flip mode: true = reverse insertion order
}
