#!/usr/bin/env python3
"""Regenerates MANIFEST.json from the table below (kept in one place so that the manifest stays valid)."""
import json, os

HERE = os.path.dirname(os.path.abspath(__file__))
props = [json.loads(l) for l in open(os.path.join(HERE, "properties.jsonl"))]

TECH = "bounded symbolic execution of the real go/ssa code (own SSA->SMT-LIB2 executor) + z3; shape cubes x symbolic remainder; sat models replayed natively"
NOTE = ("Trusted: go/packages + go/ssa builder, the executor's semantics of ~35 SSA instruction kinds and its stubs (listed per run in the evidence), z3 4.8.12, "
        "the harness oracle (plain Go, symbolically executed by the same engine and compiled natively for replay). float64 is modelled as exact reals (exact for "
        "+,-,max,min,/2^k on the dyadic grid the inputs range over; other float operations are counted as 'inexact' in the evidence). The claim is bounded: "
        "see 'bounds' of every obligation in the evidence; graphs, option sets and value ranges outside them are not covered.")

CLAIMS = {
    "C01": ("every explicit panic, every implicit run-time panic site (nil deref, index/slice bounds, nil map write, div by zero, failed type assertion) and every "
            "loop/recursion budget reachable from autog.Layout is a solver query per cube; unsat = unreachable for all sizes/spacings/RNG picks within the bound; plus the real "
            "phase1.Process with panic queries on a multigraph cube family (parallel copies, up to 7/8 edges) and on a structured family of 5..11 nodes (a cycle next to an "
            "acyclic part that the greedy breaker peels off first)", "5 C01"),
    "C02": ("output node/edge multisets and sizes compared with the input for all symbolic sizes and the four size-option modes", "5 C02"),
    "C03": ("band separation, downward flow and ArrowHeadStart <=> upward asserted on the returned coordinates for all symbolic sizes/spacings; plus in-package network-simplex "
            "obligations from symbolic pre-states (pivot lemma, normalize+vbalance lemma, whole run with symbolic minimum lengths): every edge keeps its minimum length; "
            "plus the same assertions with node names whose concatenations collide", "4 C03"),
    "C04": ("pairwise rectangle disjointness and same-band spacing asserted on the returned coordinates for all symbolic sizes/spacings; plus the positioners on arbitrary proper "
            "layered graphs (kernel, symbolic sizes)", "4 C04"),
    "C05": ("first/last route point vs. bottom-/top-centre of the endpoint rectangles and arrowhead end vs. ToID for all symbolic sizes/spacings", "5 C05"),
    "C06": ("per-style route shape assertions on the returned points for all symbolic sizes/spacings", "5 C06"),
    "C07": ("self-composition: two calls with independent symbolic map-iteration orders must give identical results; inputs compared before/after; plus a history of four "
            "calls that combine two WithNodeSize maps (symbolic sizes): equal calls give equal results, both caller maps unmodified", "5 C07"),
    "C08": ("relational: the solver chooses an injective renaming from an adversarial alphabet; both runs (incl. their panic behaviour) must agree; plus enumerated fixed "
            "renamings (reversed order, helper-node names, rotation, names whose concatenations collide) with symbolic sizes", "5 C08"),
    "C09": ("relational: Layout(union) vs Layout(component) for every component, translation and side-by-side extents asserted symbolically; incl. every connected 5-node DAG "
            "with helper nodes as the first of two components", "5 C09"),
    "C10": ("the solver searches for a cheaper feasible layering (alt[i] symbolic) of the drawn orientation; unsat = optimal; contiguity asserted; plus in-package pivot lemma "
            "(arbitrary feasible tight spanning tree, symbolic layering / tree / lengths / weights; incl. 'stored cut values equal their definition after the pivot') and whole "
            "network simplex with symbolic minimum lengths", "4 C10"),
    "C11": ("bands compared with an independent longest-path computation on the drawn orientation; plus the real LongestPath.Process on DAG cubes with a solver-chosen "
            "IsReversed flag per edge, incl. deep structured DAGs with up to 20/40 nodes", "5 C11"),
    "C12": ("monitor value vs crossings recounted from the returned route points for all symbolic widths/spacings (incl. 70-layer graphs); plus the real crossing counter vs the naive "
            "count with solver-chosen in-layer permutations and a symbolic layer index 0..100; plus the real weighted-median ordering on arbitrary layered graphs (cubes)", "4 C12"),
    "C13": ("crossings recounted from the returned route points of every rooted tree in every edge order, symbolic widths/spacings; plus the real weighted-median ordering on "
            "layered trees (cubes)", "5 C13"),
    "C14": ("phase1.Process driven in-package: result acyclic, acyclic input => nothing reversed, DFS reversed set irredundant (closure spec); edge endpoints "
            "symbolic at the smallest bound, one symbolic tail edge / cubes beyond, incl. a multigraph cube family with up to 7/8 edges", "5 C14"),
    "C16": ("band extent / midpoint / right-end identities asserted on the returned coordinates incl. helper nodes, symbolic sizes/spacings", "5 C16"),
    "C17": ("relational: layout of (sizes, spacings) vs layout of 2^k * (sizes, spacings) for symbolic sizes/spacings", "5 C17"),
    "C18": ("layout with vs. without monitor (SinkColoring, VAlign, B&K x none/straight/polyline/ortho/spline routing); all histories of k calls (panicking / normal, with / "
            "without monitor) with the engine's panic+defer semantics", "5 C18"),
    "C19": ("real Triangulate+Shortest on corridor cubes with symbolic start/end x; inside-corridor and tautness (<=> shortest) asserted, panic sites as queries", "5 C19"),
}
CLAIMS["C15"] = ("sufficient condition decided instead of interleavings: with no monitor supplied no reachable instruction writes package-level state (every store / map update / "
                 "in-place append / RNG step whose target is a package-level variable or an object allocated by a package initialiser is a query); a sat answer is confirmed "
                 "natively by concurrent calls under the race detector; option grid incl. spline routing (Shortest, MergeRects, Sides, FitSpline). Schedules themselves are not explored", "5 C15")
CLAIMS["C20"] = ("PARTIAL: decided in exact real arithmetic with z3 5.1.0 nlsat on the real code - (a) the root finder: solve1/solve2 sound and complete, solve3 sound and complete "
                 "in the Cardano branch (discriminant >= 0) AND in the trigonometric branch (discriminant < 0; cos((atan2+2k*pi)/3) introduced by the triple-angle identity and its "
                 "branch interval): every returned value is a root and every real root is returned; (b) curveIntersects / curveContained on control polygons whose polynomial "
                 "against the barrier's line is linear, quadratic or constant, barrier end points and the curve parameter symbolic: exactly the intersections are returned, a "
                 "crossing away from the barrier ends makes the curve 'not contained'. For genuinely cubic control polygons nlsat does not decide the intersection queries within "
                 "600 s; termination of FitSpline and containment of the fitted curve as a whole (hypot, normalisation, general division, unbounded recursion) are NOT decided", "6")
NA = {}

checks = []
for p in props:
    pid = p["id"]
    if pid not in CLAIMS:
        continue
    text, ref = CLAIMS[pid]
    checks.append({
        "property_id": pid,
        "quick_cmd": "./check %s quick" % pid,
        "thorough_cmd": "./check %s thorough" % pid,
        "evidence_file": "evidence/%s.json" % pid,
        "replay_cmd_template": "./check --replay {path}",
        "engine": "gosmt",
        "level_claimed": {"category": "model_checking",
                          "text": "Bounded symbolic model checking of the real code: " + text + ". Within the stated bounds an unsat answer covers every value of the symbolic "
                                  "dimensions; every sat answer is replayed against the real build before it is reported.",
                          "design_ref": "DESIGN.md section " + ref.replace("5 C", "4 C")},
        "level_note": NOTE,
        "technique": TECH,
    })

m = {
    "version": 1,
    "setup_cmd": "cd /verif/engine && GOFLAGS=-mod=mod GOPROXY=off GOSUMDB=off GOTOOLCHAIN=local go build -o /verif/bin/gosmt .",
    "hooks": {"guard": "verif", "enable": "no hooks: harnesses are injected with go/packages Overlay (engine) and `go test -overlay` (native replay); /repo is never modified",
              "baseline_off_cmd": "cd /repo && GOFLAGS=-mod=mod GOPROXY=off GOSUMDB=off GOTOOLCHAIN=local go test -vet=off -count=1 ./...",
              "source_commits": [], "add_only": True},
    "engines": [{"name": "gosmt", "path": "engine/", "serves_properties": sorted(CLAIMS),
                 "kind_free_text": "own symbolic executor: go/ssa (x/tools v0.29.0) of /repo's working tree + overlaid harness -> SMT-LIB2 -> z3; driver vlib/driver.py "
                                   "(cube enumeration, parallel runs, native replay, known findings, evidence)"}],
    "checks": checks,
    "notes": "Findings file: known_findings.json. Fix commits in /repo are listed there as 'fixed:' records. Seeded changes: seeded/<id>/.",
    "not_applicable": [{"property_id": k, "reason": v} for k, v in NA.items()],
}
json.dump(m, open(os.path.join(HERE, "MANIFEST.json"), "w"), indent=1)
print("checks:", len(checks), "not_applicable:", len(NA))
