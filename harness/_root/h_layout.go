package autog

import (
	"github.com/nulab/autog/graph"
)

// Harness_E_C01: Layout returns (no explicit or run-time panic, no exhausted loop / recursion
// budget) for the cube's shape and option set, for all sizes, spacings, map orders, RNG picks.
func Harness_E_C01() {
	in := vhShape()
	vhOptions(in, 0)
	vhCheckPanics()
	l := Layout(in.src, in.opts...)
	vhReach("returned")
	vhObserveLayout(l)
	vhAssert(len(l.Nodes) >= in.n, "returned-all-nodes")
}

// Harness_E_C02: the output graph is the input graph.
func Harness_E_C02() {
	in := vhShape()
	vhOptions(in, 0)
	l := Layout(in.src, in.opts...)
	vhReach("returned")
	vhObserveLayout(l)
	// nodes: every input id exactly once, configured size, nothing else (unless VIRT)
	real := 0
	for i := 0; i < in.n; i++ {
		n, cnt := vhNodeByID(l, in.ids[i])
		vhAssert(cnt == 1, "node-exactly-once")
		vhAssert(n.W == in.w[i] && n.H == in.h[i], "node-has-configured-size")
		real += cnt
	}
	if !in.virt {
		vhAssert(len(l.Nodes) == in.n, "no-extra-nodes")
	} else {
		for _, n := range l.Nodes {
			known := false
			for i := 0; i < in.n; i++ {
				if n.ID == in.ids[i] {
					known = true
				}
			}
			if !known {
				vhAssert(n.W == 0 && n.H == 0, "helper-node-has-zero-size")
			}
		}
	}
	// edges: same multiset of directed pairs
	vhAssert(len(l.Edges) == in.m, "edge-count")
	for a := 0; a < in.n; a++ {
		for b := 0; b < in.n; b++ {
			want, got := 0, 0
			for i := 0; i < in.m; i++ {
				if in.f[i] == a && in.t[i] == b {
					want++
				}
			}
			for _, e := range l.Edges {
				if e.FromID == in.ids[a] && e.ToID == in.ids[b] {
					got++
				}
			}
			vhAssert(want == got, "edge-multiset")
		}
	}
	for _, e := range l.Edges {
		if e.FromID == e.ToID {
			vhAssert(len(e.Points) == 0, "self-loop-unrouted")
		}
	}
}

func vhNode(l graph.Layout, id string) graph.Node { n, _ := vhNodeByID(l, id); return n }

// Harness_E_C03: bands and downward flow (LayerSpacing > 0).
func Harness_E_C03() {
	in := vhShape()
	vhOptions(in, 1)
	l := Layout(in.src, in.opts...)
	vhReach("returned")
	vhObserveLayout(l)
	comp := vhComp(in)
	dag := vhInputAcyclic(in)
	for a := 0; a < in.n; a++ {
		for b := 0; b < in.n; b++ {
			if a == b || comp[a] != comp[b] {
				continue
			}
			na, nb := vhNode(l, in.ids[a]), vhNode(l, in.ids[b])
			// same band, or b's band starts at least LayerSpacing below a's bottom, or the converse
			vhAssert(na.Y == nb.Y || nb.Y >= na.Y+na.H+in.ls || na.Y >= nb.Y+nb.H+in.ls, "bands-separated-by-layer-spacing")
		}
	}
	for _, e := range l.Edges {
		if e.FromID == e.ToID {
			continue
		}
		nf, nt := vhNode(l, e.FromID), vhNode(l, e.ToID)
		if vhConst("KNOWN_FLAT") == 1 {
			vhKnown(nf.Y != nt.Y, "G3-longest-path-flat-edges")
		} else {
			vhAssert(nf.Y != nt.Y, "edge-joins-two-bands")
		}
		if nf.Y != nt.Y {
			vhAssert((nf.Y > nt.Y) == e.ArrowHeadStart, "upward-iff-arrowheadstart")
			if dag {
				vhAssert(nf.Y < nt.Y, "acyclic-input-flows-down")
			}
		}
	}
}

// Harness_E_C04: no overlap, spacing kept, coordinates finite and non-negative.
func Harness_E_C04() {
	in := vhShape()
	vhOptions(in, 0)
	l := Layout(in.src, in.opts...)
	vhReach("returned")
	vhObserveLayout(l)
	for a := 0; a < in.n; a++ {
		na := vhNode(l, in.ids[a])
		vhAssert(na.X >= 0 && na.Y >= 0, "coordinates-non-negative")
		vhAssert(na.X < 1e9 && na.Y < 1e9, "coordinates-finite")
		for b := a + 1; b < in.n; b++ {
			nb := vhNode(l, in.ids[b])
			sepH := na.X+na.W <= nb.X || nb.X+nb.W <= na.X
			sepV := na.Y+na.H <= nb.Y || nb.Y+nb.H <= na.Y
			vhAssert(sepH || sepV, "rectangles-disjoint")
			if na.Y == nb.Y && in.ls > 0 {
				// with LayerSpacing > 0 equal Y means same band (C03)
				vhAssert(na.X+na.W+in.ns <= nb.X || nb.X+nb.W+in.ns <= na.X, "same-band-node-spacing")
			}
		}
	}
}

// Harness_E_C05: edges attach to their endpoints, arrowhead marks the target.
func Harness_E_C05() {
	in := vhShape()
	vhOptions(in, 1)
	l := Layout(in.src, in.opts...)
	vhReach("returned")
	vhObserveLayout(l)
	for _, e := range l.Edges {
		if e.FromID == e.ToID {
			continue
		}
		nf, nt := vhNode(l, e.FromID), vhNode(l, e.ToID)
		if nf.Y == nt.Y {
			continue // flat edge: outside the statement (C03 covers "two different bands")
		}
		vhAssert(len(e.Points) >= 2, "edge-is-routed")
		if len(e.Points) < 2 {
			continue
		}
		up, lo := nf, nt
		if nf.Y > nt.Y {
			up, lo = nt, nf
		}
		first, last := e.Points[0], e.Points[len(e.Points)-1]
		vhAssert(first[0] == up.X+up.W/2 && first[1] == up.Y+up.H, "first-point-bottom-centre-of-upper-node")
		vhAssert(last[0] == lo.X+lo.W/2 && last[1] == lo.Y, "last-point-top-centre-of-lower-node")
		// arrowhead end is at ToID
		if e.ArrowHeadStart {
			vhAssert(first[0] == nt.X+nt.W/2 && first[1] == nt.Y+nt.H, "arrowhead-at-target")
		} else {
			vhAssert(last[0] == nt.X+nt.W/2 && last[1] == nt.Y, "arrowhead-at-target")
		}
		for _, p := range e.Points {
			vhAssert(p[0] > -1e9 && p[0] < 1e9 && p[1] > -1e9 && p[1] < 1e9, "points-finite")
		}
	}
}

// Harness_E_C06: route geometry per routing style (P5: 1 straight, 2 polyline, 3 ortho).
func Harness_E_C06() {
	in := vhShape()
	vhOptions(in, 1)
	l := Layout(in.src, in.opts...)
	vhReach("returned")
	vhObserveLayout(l)
	nbends := 0
	for _, e := range l.Edges {
		if e.FromID == e.ToID {
			continue
		}
		nf, nt := vhNode(l, e.FromID), vhNode(l, e.ToID)
		if nf.Y == nt.Y {
			continue
		}
		switch in.p5 {
		case 1:
			vhAssert(len(e.Points) == 2, "straight-two-points")
		case 2:
			for i := 1; i < len(e.Points); i++ {
				vhAssert(e.Points[i][1] >= e.Points[i-1][1], "polyline-never-upward")
			}
			for i := 1; i+1 < len(e.Points); i++ {
				nbends++
				p := e.Points[i]
				for a := 0; a < in.n; a++ {
					na := vhNode(l, in.ids[a])
					inside := p[0] > na.X && p[0] < na.X+na.W && p[1] > na.Y && p[1] < na.Y+na.H
					vhAssert(!inside, "polyline-bend-not-inside-node")
				}
				if in.virt {
					// one helper node at the bend's x
					found := false
					for _, n := range l.Nodes {
						helper := true
						for a := 0; a < in.n; a++ {
							if n.ID == in.ids[a] {
								helper = false
							}
						}
						if helper && n.X+n.W/2 == p[0] && n.Y <= p[1] {
							found = true
						}
					}
					vhAssert(found, "polyline-bend-has-helper-node-at-its-x")
				}
			}
		case 3:
			for i := 1; i < len(e.Points); i++ {
				a, b := e.Points[i-1], e.Points[i]
				if vhConst("KNOWN_ORTHO") == 1 {
					vhKnown(a[0] == b[0] || a[1] == b[1], "G9-ortho-slanted-segment")
				} else {
					vhAssert(a[0] == b[0] || a[1] == b[1], "ortho-segments-axis-parallel")
				}
			}
		}
	}
	if in.p5 == 2 && in.virt {
		helpers := 0
		for _, n := range l.Nodes {
			helper := true
			for a := 0; a < in.n; a++ {
				if n.ID == in.ids[a] {
					helper = false
				}
			}
			if helper {
				helpers++
			}
		}
		vhAssert(helpers == nbends, "polyline-one-helper-per-bend")
	}
}
