package autog

import (
	"github.com/nulab/autog/graph"
)

func vhSameLayout(a, b graph.Layout, label string) {
	vhAssert(len(a.Nodes) == len(b.Nodes), label+"-node-count")
	vhAssert(len(a.Edges) == len(b.Edges), label+"-edge-count")
	for i := 0; i < len(a.Nodes) && i < len(b.Nodes); i++ {
		x, y := a.Nodes[i], b.Nodes[i]
		vhAssert(x.ID == y.ID, label+"-node-order")
		vhAssert(x.X == y.X && x.Y == y.Y && x.W == y.W && x.H == y.H, label+"-node-geometry")
	}
	for i := 0; i < len(a.Edges) && i < len(b.Edges); i++ {
		x, y := a.Edges[i], b.Edges[i]
		vhAssert(x.FromID == y.FromID && x.ToID == y.ToID, label+"-edge-order")
		vhAssert(x.ArrowHeadStart == y.ArrowHeadStart, label+"-edge-flags")
		vhAssert(len(x.Points) == len(y.Points), label+"-route-length")
		for j := 0; j < len(x.Points) && j < len(y.Points); j++ {
			vhAssert(x.Points[j][0] == y.Points[j][0] && x.Points[j][1] == y.Points[j][1], label+"-route-points")
		}
	}
}

// Harness_E_C07: two calls with the same arguments give identical results (the engine gives each
// `range` over a map its own symbolic order in each call); the caller's edge list and size map are
// left unmodified.
func Harness_E_C07() {
	in := vhShape()
	vhOptions(in, 0)
	// deep copy of the caller's data
	var src0 [][]string
	for _, e := range in.src {
		src0 = append(src0, []string{e[0], e[1]})
	}
	var c0 graph.Layout
	if in.sz == 6 {
		// history: a call with the first map alone, before and after the calls that combine two maps
		c0 = Layout(in.src, WithNodeSize(in.sizes), WithNodeSpacing(in.ns), WithLayerSpacing(in.ls))
	}
	a := Layout(in.src, in.opts...)
	b := Layout(in.src, in.opts...)
	vhReach("returned")
	vhObserveLayout(a)
	vhSameLayout(a, b, "repeat")
	if in.sz == 6 {
		c1 := Layout(in.src, WithNodeSize(in.sizes), WithNodeSpacing(in.ns), WithLayerSpacing(in.ls))
		vhSameLayout(c0, c1, "repeat-after-other-options")
		cnt2 := 0
		for i := 0; i < in.n; i++ {
			if i%2 == 1 || i == 0 {
				cnt2++
				s, ok := in.sizes2[in.ids[i]]
				vhAssert(ok && s.W == in.w2[i] && s.H == in.h2[i] && s.X == 0 && s.Y == 0, "input-size-map-unmodified")
			}
		}
		vhAssert(len(in.sizes2) == cnt2, "input-size-map-unmodified")
	}
	vhAssert(len(in.src) == len(src0), "input-edge-list-unmodified")
	for i := range src0 {
		vhAssert(len(in.src[i]) == 2 && in.src[i][0] == src0[i][0] && in.src[i][1] == src0[i][1], "input-edge-list-unmodified")
	}
	if in.sizes != nil {
		cnt := 0
		for i := 0; i < in.n; i++ {
			if in.listed[i] {
				cnt++
				s, ok := in.sizes[in.ids[i]]
				vhAssert(ok && s.W == in.w[i] && s.H == in.h[i] && s.X == 0 && s.Y == 0, "input-size-map-unmodified")
			}
		}
		vhAssert(len(in.sizes) == cnt, "input-size-map-unmodified")
	}
}

// Harness_E_C08: renaming the nodes injectively (solver-chosen names from an adversarial alphabet)
// yields the same layout modulo the renaming.
func Harness_E_C08() {
	in := vhShape()
	vhOptions(in, 0)
	re := vhRename(in)
	re.buildOpts()
	var a, b graph.Layout
	pa := vhPanics(func() { a = Layout(in.src, in.opts...) })
	pb := vhPanics(func() { b = Layout(re.src, re.opts...) })
	vhAssert(pa == pb, "rename-same-panic-behaviour")
	if pa || pb {
		return
	}
	vhReach("returned")
	vhObserveLayout(a)
	vhAssert(len(a.Nodes) == len(b.Nodes), "rename-node-count")
	vhAssert(len(a.Edges) == len(b.Edges), "rename-edge-count")
	for i := 0; i < in.n; i++ {
		x, cx := vhNodeByID(a, in.ids[i])
		y, cy := vhNodeByID(b, re.ids[i])
		vhAssert(cx == 1 && cy == 1, "rename-node-present")
		vhAssert(x.X == y.X && x.Y == y.Y && x.W == y.W && x.H == y.H, "rename-node-geometry")
	}
	for i := 0; i < len(a.Edges) && i < len(b.Edges); i++ {
		x, y := a.Edges[i], b.Edges[i]
		for k := 0; k < in.n; k++ {
			vhAssert((x.FromID == in.ids[k]) == (y.FromID == re.ids[k]), "rename-edge-endpoints")
			vhAssert((x.ToID == in.ids[k]) == (y.ToID == re.ids[k]), "rename-edge-endpoints")
		}
		vhAssert(x.ArrowHeadStart == y.ArrowHeadStart, "rename-edge-flags")
		vhAssert(len(x.Points) == len(y.Points), "rename-route-length")
		for j := 0; j < len(x.Points) && j < len(y.Points); j++ {
			vhAssert(x.Points[j][0] == y.Points[j][0] && x.Points[j][1] == y.Points[j][1], "rename-route-points")
		}
	}
}

// Harness_E_C09: each connected component gets the layout it would get as the sole input,
// translated horizontally; extents of different components are >= NodeSpacing apart.
func Harness_E_C09() {
	in := vhShape()
	vhOptions(in, 0)
	comp := vhComp(in)
	whole := Layout(in.src, in.opts...)
	vhReach("returned")
	vhObserveLayout(whole)
	ncomp := 0
	for c := 0; c < in.n; c++ {
		if comp[c] != c {
			continue // c is not a component representative
		}
		ncomp++
		var sub graph.EdgeSlice
		for i := 0; i < in.m; i++ {
			if comp[in.f[i]] == c {
				sub = append(sub, in.src[i])
			}
		}
		var solo graph.Layout
		ps := vhPanics(func() { solo = Layout(sub, in.opts...) })
		vhAssert(!ps, "component-solo-layout-returns")
		if ps {
			return
		}
		// translation: taken from the representative node
		rw, _ := vhNodeByID(whole, in.ids[c])
		rs, _ := vhNodeByID(solo, in.ids[c])
		dx := rw.X - rs.X
		for i := 0; i < in.n; i++ {
			if comp[i] != c {
				continue
			}
			x, _ := vhNodeByID(whole, in.ids[i])
			y, cy := vhNodeByID(solo, in.ids[i])
			vhAssert(cy == 1, "component-solo-has-node")
			vhAssert(x.X == y.X+dx && x.Y == y.Y && x.W == y.W && x.H == y.H, "component-layout-is-translated-solo-layout")
		}
		// edges of this component, in order
		k := 0
		for _, e := range whole.Edges {
			inC := false
			for i := 0; i < in.n; i++ {
				if comp[i] == c && e.FromID == in.ids[i] {
					inC = true
				}
			}
			if !inC {
				continue
			}
			if k < len(solo.Edges) {
				s := solo.Edges[k]
				vhAssert(s.FromID == e.FromID && s.ToID == e.ToID && s.ArrowHeadStart == e.ArrowHeadStart, "component-edges-same")
				vhAssert(len(s.Points) == len(e.Points), "component-routes-same")
				for j := 0; j < len(s.Points) && j < len(e.Points); j++ {
					vhAssert(e.Points[j][0] == s.Points[j][0]+dx && e.Points[j][1] == s.Points[j][1], "component-routes-translated")
				}
			}
			k++
		}
		vhAssert(k == len(solo.Edges), "component-edge-count")
	}
	if ncomp >= 2 {
		vhReach("several-components")
		// side by side: horizontal extents of different components are disjoint and >= NodeSpacing apart
		for a := 0; a < in.n; a++ {
			for b := 0; b < in.n; b++ {
				if comp[a] >= comp[b] {
					continue
				}
				// extents
				minA, maxA, minB, maxB := 1e18, -1e18, 1e18, -1e18
				for i := 0; i < in.n; i++ {
					n, _ := vhNodeByID(whole, in.ids[i])
					if comp[i] == comp[a] {
						minA, maxA = min(minA, n.X), max(maxA, n.X+n.W)
					}
					if comp[i] == comp[b] {
						minB, maxB = min(minB, n.X), max(maxB, n.X+n.W)
					}
				}
				vhAssert(maxA+in.ns <= minB || maxB+in.ns <= minA, "components-side-by-side")
			}
		}
	}
}

// vhBand: with zero heights and LayerSpacing = LSFIX the Y of a node is ls * band index.
func vhBandOf(in *vhIn, y float64) int {
	for k := 0; k < 128; k++ {
		if y == float64(k)*in.ls {
			return k
		}
	}
	return -1
}

// Harness_E_C10: network-simplex layering minimises total edge length (sizes none, LayerSpacing
// concrete, so band = Y / LayerSpacing); the solver looks for a cheaper feasible layering.
func Harness_E_C10() {
	in := vhShape()
	vhOptions(in, 1)
	l := Layout(in.src, in.opts...)
	vhReach("returned")
	vhObserveLayout(l)
	comp := vhComp(in)
	band := make([]int, in.n)
	alt := make([]int, in.n)
	for i := 0; i < in.n; i++ {
		n, _ := vhNodeByID(l, in.ids[i])
		band[i] = vhBandOf(in, n.Y)
		vhAssert(band[i] >= 0, "band-index-defined")
		alt[i] = vhInt("alt", 0, 15) // an arbitrary alternative layering
	}
	total, totalAlt := 0, 0
	feasible := true
	for _, e := range l.Edges {
		if e.FromID == e.ToID {
			continue
		}
		var f, t int
		for i := 0; i < in.n; i++ {
			if in.ids[i] == e.FromID {
				f = i
			}
			if in.ids[i] == e.ToID {
				t = i
			}
		}
		up, lo := f, t
		if band[f] > band[t] {
			up, lo = t, f
		}
		vhAssert(band[up] < band[lo], "every-edge-spans-at-least-one-band")
		total += band[lo] - band[up]
		if alt[lo]-alt[up] < 1 {
			feasible = false
		}
		totalAlt += alt[lo] - alt[up]
	}
	if feasible {
		vhReach("alternative-layering-feasible")
		vhAssert(totalAlt >= total, "total-edge-length-is-minimal")
	}
	// contiguous bands per component
	for i := 0; i < in.n; i++ {
		if band[i] > 0 {
			found := false
			for j := 0; j < in.n; j++ {
				if comp[j] == comp[i] && band[j] == band[i]-1 {
					found = true
				}
			}
			vhAssert(found, "no-empty-band-between-used-ones")
		}
	}
}

// Harness_E_C11: longest-path layering: band of n = (longest path of its component) - height(n).
func Harness_E_C11() {
	in := vhShape()
	vhOptions(in, 1)
	l := Layout(in.src, in.opts...)
	vhReach("returned")
	vhObserveLayout(l)
	comp := vhComp(in)
	band := make([]int, in.n)
	for i := 0; i < in.n; i++ {
		n, _ := vhNodeByID(l, in.ids[i])
		band[i] = vhBandOf(in, n.Y)
		vhAssert(band[i] >= 0, "band-index-defined")
	}
	// drawn orientation: from the upper to the lower band; input direction unless ArrowHeadStart
	var up, lo []int
	for _, e := range l.Edges {
		if e.FromID == e.ToID {
			continue
		}
		var f, t int
		for i := 0; i < in.n; i++ {
			if in.ids[i] == e.FromID {
				f = i
			}
			if in.ids[i] == e.ToID {
				t = i
			}
		}
		if e.ArrowHeadStart {
			f, t = t, f
		}
		up = append(up, f)
		lo = append(lo, t)
	}
	// height = number of nodes on the longest directed path from n to a sink (relaxation)
	height := make([]int, in.n)
	for i := range height {
		height[i] = 1
	}
	for round := 0; round < in.n; round++ {
		for k := range up {
			if height[lo[k]]+1 > height[up[k]] {
				height[up[k]] = height[lo[k]] + 1
			}
		}
	}
	for i := 0; i < in.n; i++ {
		vhAssert(height[i] <= in.n, "drawn-orientation-acyclic")
		maxh, nb := 0, 0
		for j := 0; j < in.n; j++ {
			if comp[j] == comp[i] {
				maxh = max(maxh, height[j])
				nb = max(nb, band[j]+1)
			}
		}
		vhAssert(nb == maxh, "number-of-bands-equals-longest-path")
		vhAssert(band[i] == maxh-height[i], "node-sits-height-above-bottom-band")
	}
}

// vhCrossings counts pairwise crossings between adjacent bands from the route points of the
// drawing (zero heights: every route point lies exactly on a band).
func vhCrossings(in *vhIn, l graph.Layout) (int, bool) {
	type seg struct {
		b      int
		x0, x1 float64
	}
	var segs []seg
	ok := true
	for _, e := range l.Edges {
		if e.FromID == e.ToID {
			continue
		}
		for i := 1; i < len(e.Points); i++ {
			b0, b1 := vhBandOf(in, e.Points[i-1][1]), vhBandOf(in, e.Points[i][1])
			if b0 < 0 || b1 != b0+1 {
				ok = false
			}
			segs = append(segs, seg{b0, e.Points[i-1][0], e.Points[i][0]})
		}
	}
	n := 0
	for i := range segs {
		for j := i + 1; j < len(segs); j++ {
			a, b := segs[i], segs[j]
			if a.b != b.b {
				continue
			}
			if (a.x0 < b.x0 && a.x1 > b.x1) || (a.x0 > b.x0 && a.x1 < b.x1) {
				n++
			}
		}
	}
	return n, ok
}

// Harness_E_C12: the crossing number reported through the monitor equals the crossings drawn.
func Harness_E_C12() {
	in := vhShape()
	vhOptions(in, 1)
	rec := &vhRecorder{}
	opts := append(in.opts, WithMonitor(rec))
	l := Layout(in.src, opts...)
	vhReach("returned")
	vhObserveLayout(l)
	reported, nrep := 0, 0
	for _, ev := range rec.events {
		if ev.phase == 3 && ev.key == "crossings" {
			v, ok := ev.val.(int)
			vhAssert(ok, "crossings-event-is-int")
			reported += v
			nrep++
		}
	}
	drawn, ok := vhCrossings(in, l)
	vhAssert(ok, "route-points-lie-on-consecutive-bands")
	if nrep > 0 {
		vhReach("crossings-reported")
	}
	vhAssert(reported == drawn, "reported-crossings-equal-drawn-crossings")
}

// Harness_E_C13: rooted trees are drawn without crossings.
func Harness_E_C13() {
	in := vhShape()
	vhOptions(in, 1)
	l := Layout(in.src, in.opts...)
	vhReach("returned")
	vhObserveLayout(l)
	drawn, ok := vhCrossings(in, l)
	vhAssert(ok, "route-points-lie-on-consecutive-bands")
	vhAssert(drawn == 0, "tree-drawn-without-crossings")
}

// Harness_E_C16: VAlign centres / PackRight right-aligns every band with exact spacing
// (helper nodes included: VIRT=1).
func Harness_E_C16() {
	in := vhShape()
	vhOptions(in, 1)
	l := Layout(in.src, in.opts...)
	vhReach("returned")
	vhObserveLayout(l)
	gmin := 1e18
	for _, n := range l.Nodes {
		gmin = min(gmin, n.X)
	}
	vhAssert(gmin == 0, "leftmost-node-at-zero")
	first := true
	var ref float64
	for i, r := range l.Nodes {
		// r is the representative of its band if no earlier node shares its Y
		rep := true
		for j := 0; j < i; j++ {
			if l.Nodes[j].Y == r.Y {
				rep = false
			}
		}
		if !rep {
			continue
		}
		lo, hi, sum, cnt := 1e18, -1e18, 0.0, 0
		for _, n := range l.Nodes {
			if n.Y == r.Y {
				lo, hi = min(lo, n.X), max(hi, n.X+n.W)
				sum += n.W
				cnt++
			}
		}
		vhAssert(hi-lo == sum+float64(cnt-1)*in.ns, "band-extent-is-widths-plus-exact-spacing")
		var key float64
		if in.p4 == 1 {
			key = lo + hi // twice the midpoint
		} else {
			key = hi
		}
		if first {
			ref, first = key, false
		} else if in.p4 == 1 {
			vhAssert(key == ref, "valign-band-midpoints-coincide")
		} else {
			vhAssert(key == ref, "packright-band-right-ends-coincide")
		}
	}
}

// Harness_E_C17: multiplying all sizes and spacings by 2^K multiplies every coordinate by 2^K.
func Harness_E_C17() {
	in := vhShape()
	vhOptions(in, 0)
	k := vhConst("K")
	c := 1.0
	for i := 0; i < k; i++ {
		c *= 2
	}
	for i := 0; i > k; i-- {
		c /= 2
	}
	sc := &vhIn{}
	*sc = *in
	sc.w = make([]float64, in.n)
	sc.h = make([]float64, in.n)
	for i := 0; i < in.n; i++ {
		sc.w[i], sc.h[i] = in.w[i]*c, in.h[i]*c
	}
	sc.fw, sc.fh, sc.ns, sc.ls = in.fw*c, in.fh*c, in.ns*c, in.ls*c
	sc.buildOpts()
	var a, b graph.Layout
	pa := vhPanics(func() { a = Layout(in.src, in.opts...) })
	pb := vhPanics(func() { b = Layout(sc.src, sc.opts...) })
	vhAssert(pa == pb, "scale-same-panic-behaviour")
	if pa || pb {
		return
	}
	vhReach("returned")
	vhObserveLayout(b)
	vhAssert(len(a.Nodes) == len(b.Nodes), "scale-node-count")
	vhAssert(len(a.Edges) == len(b.Edges), "scale-edge-count")
	for i := 0; i < len(a.Nodes) && i < len(b.Nodes); i++ {
		x, y := a.Nodes[i], b.Nodes[i]
		vhAssert(x.ID == y.ID, "scale-node-order")
		vhAssert(y.X == x.X*c && y.Y == x.Y*c && y.W == x.W*c && y.H == x.H*c, "scale-node-geometry")
	}
	for i := 0; i < len(a.Edges) && i < len(b.Edges); i++ {
		x, y := a.Edges[i], b.Edges[i]
		vhAssert(x.FromID == y.FromID && x.ToID == y.ToID && x.ArrowHeadStart == y.ArrowHeadStart, "scale-edge-identity")
		vhAssert(len(x.Points) == len(y.Points), "scale-route-length")
		for j := 0; j < len(x.Points) && j < len(y.Points); j++ {
			vhAssert(y.Points[j][0] == x.Points[j][0]*c && y.Points[j][1] == x.Points[j][1]*c, "scale-route-points")
		}
	}
}

// Harness_E_C18a: supplying a monitor does not change the layout.
func Harness_E_C18a() {
	in := vhShape()
	vhOptions(in, 0)
	rec := &vhRecorder{}
	var a, b graph.Layout
	pa := vhPanics(func() { a = Layout(in.src, in.opts...) })
	pb := vhPanics(func() { b = Layout(in.src, append(in.opts, WithMonitor(rec))...) })
	vhAssert(pa == pb, "monitor-same-panic-behaviour")
	if pa || pb {
		return
	}
	vhReach("returned")
	vhObserveLayout(b)
	vhSameLayout(a, b, "monitor")
}

// Harness_E_C18b: histories of K calls; call i is (cube constants kind[i], mon[i]) one of: empty graph (panics),
// a self-looped single node, one edge, the cube's shape; with its own recording monitor or none.
// A monitor receives events only during its own call.
func Harness_E_C18b() {
	in := vhShape()
	vhOptions(in, 0)
	k := vhConst("K")
	recs := make([]*vhRecorder, k)
	for i := range recs {
		recs[i] = &vhRecorder{}
	}
	for i := 0; i < k; i++ {
		kind := vhConstIdx("kind", i)
		withMon := vhConstIdx("mon", i) == 1
		var src graph.EdgeSlice
		switch kind {
		case 0:
			src = graph.EdgeSlice{}
		case 1:
			src = graph.EdgeSlice{{"x", "x"}}
		case 2:
			src = graph.EdgeSlice{{"x", "y"}}
		default:
			src = in.src
		}
		before := make([]int, k)
		for j := range recs {
			before[j] = len(recs[j].events)
		}
		opts := in.opts
		if withMon {
			opts = append(append([]Option(nil), in.opts...), WithMonitor(recs[i]))
		}
		panicked := vhPanics(func() { Layout(src, opts...) })
		vhAssert(panicked == (kind == 0), "only-the-empty-graph-panics")
		for j := range recs {
			if j != i || !withMon {
				vhAssert(len(recs[j].events) == before[j], "monitor-receives-events-only-during-its-own-call")
			}
		}
		if withMon && kind >= 2 {
			vhReach("monitored-call-logged")
		}
	}
	for j := range recs {
		vhObserveInt("events", len(recs[j].events))
	}
	vhReach("history-done")
}

// Harness_E_C15: with no monitor supplied no reachable instruction writes package-level state
// (the sufficient condition for "concurrent calls do not interfere"): every store, map update,
// in-place append or RNG step whose target is a package-level variable or anything allocated by a
// package initialiser is a query. Two calls in a row, so that state kept between calls would also
// show as a difference.
func Harness_E_C15() {
	in := vhShape()
	vhOptions(in, 0)
	vhCheckSharedWrites()
	a := Layout(in.src, in.opts...)
	b := Layout(in.src, in.opts...)
	vhReach("returned")
	vhObserveLayout(a)
	if in.p1 != 2 { // the explicitly non-deterministic greedy option aside
		vhSameLayout(a, b, "second-call")
	}
}
