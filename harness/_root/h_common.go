package autog

// Shared builders for the end-to-end ("E-tier") harnesses: the real autog.Layout is called on an
// edge list whose shape comes from the cube constants, with symbolic node sizes, spacings, map
// iteration orders and RNG picks.

import (
	"strconv"

	"github.com/nulab/autog/graph"
	imonitor "github.com/nulab/autog/internal/monitor"
	"github.com/nulab/autog/internal/phase1"
	"github.com/nulab/autog/internal/phase2"
	"github.com/nulab/autog/internal/phase3"
	"github.com/nulab/autog/internal/phase4"
	"github.com/nulab/autog/internal/phase5"
)

const vhMaxSize = 64

type vhIn struct {
	n      int // number of distinct nodes
	m      int
	f, t   []int
	ids    []string
	src    graph.EdgeSlice
	w, h   []float64 // configured size per node (what C02 expects in the output)
	ns, ls float64
	opts   []Option
	p1, p2 int
	p4, p5 int
	bk, sz int
	fw, fh float64
	listed []bool
	sizes  map[string]graph.Size
	sizes2 map[string]graph.Size // SZ 6: a second WithNodeSize map (odd nodes + node 0)
	w2, h2  []float64
	virt   bool
}

// vhID: node names of the harness inputs. IDSET 0: n0, n1, ..; IDSET 1: names whose concatenations are ambiguous without a
// separator ("1"+"12" == "11"+"2") - any key built from concatenated IDs collides; IDSET 2: powers of one word incl. the empty name.
func vhID(i int) string {
	switch vhConst("IDSET") {
	case 1:
		return []string{"1", "12", "2", "11", "21", "112", "121", "3"}[i%8]
	case 2:
		w := ""
		for k := 0; k < i; k++ {
			w += "x"
		}
		return w
	}
	return "n" + strconv.Itoa(i)
}

// vhShape reads the concrete edge list of this cube: M edges ef[i] -> et[i] over nodes 0..N-1
// (canonical numbering: first-occurrence order, as graph.EdgeSlice.Populate numbers them).
func vhShape() *vhIn {
	in := &vhIn{m: vhConst("M")}
	for i := 0; i < in.m; i++ {
		f, t := vhConstIdx("ef", i), vhConstIdx("et", i)
		in.f = append(in.f, f)
		in.t = append(in.t, t)
		if f+1 > in.n {
			in.n = f + 1
		}
		if t+1 > in.n {
			in.n = t + 1
		}
	}
	for i := 0; i < in.n; i++ {
		in.ids = append(in.ids, vhID(i))
	}
	in.build()
	return in
}

// vhAlphabet: adversarial identifiers (helper-node names of phase 3 "V<n>" and of the network
// simplex positioner "NE<i>", the empty string, non-ASCII, a plain name).
var vhAlphabet = []string{"a", "V1", "V2", "V3", "NE0", "NE1", "NE2", "NE3", "", "\u00fc\u221e", "n0", "n1"}

// vhRename returns a copy of the input whose node ids are an injective, solver-chosen selection
// from vhAlphabet (REN = 0), or one of three fixed renamings when the cube says so - concrete names
// keep the whole run concrete where a symbolic name would make every comparison of two IDs a case
// split: REN = 1 the same names in reverse order (reverses every lexicographic comparison),
// REN = 2 helper-node names "V3","V2","V1","NE0",.. in descending order, REN = 3 the names rotated,
// REN = 4 / 5 names whose concatenations collide (powers of one word incl. the empty name; "1","12","2","11",..).
func vhRename(in *vhIn) *vhIn {
	out := &vhIn{}
	*out = *in
	out.ids = nil
	if ren := vhConst("REN"); ren > 0 {
		helper := []string{"V3", "V2", "V1", "NE3", "NE2", "NE1", "NE0", "A"}
		for i := 0; i < in.n; i++ {
			switch ren {
			case 1:
				out.ids = append(out.ids, vhID(in.n-1-i))
			case 2:
				out.ids = append(out.ids, helper[i%len(helper)])
			case 4:
				// powers of one word ("", x, xx, ...): every concatenation of two names commutes, the empty name is invisible
				w := ""
				for k := 0; k < i; k++ {
					w += "x"
				}
				out.ids = append(out.ids, w)
			case 5:
				// names whose concatenations are ambiguous without a separator: "1"+"12" == "11"+"2"
				out.ids = append(out.ids, []string{"1", "12", "2", "11", "21", "112", "121", "3"}[i%8])
			default:
				out.ids = append(out.ids, vhID((i+1)%in.n))
			}
		}
		out.build()
		return out
	}
	var pick []int
	for i := 0; i < in.n; i++ {
		k := vhInt("id", 0, len(vhAlphabet)-1)
		for _, p := range pick {
			vhAssume(p != k)
		}
		pick = append(pick, k)
		out.ids = append(out.ids, vhAlphabet[k])
	}
	out.build()
	return out
}

func (in *vhIn) build() {
	in.src = nil
	for i := 0; i < in.m; i++ {
		in.src = append(in.src, []string{in.ids[in.f[i]], in.ids[in.t[i]]})
	}
}

// vhOptions draws the symbolic inputs of this cube and builds the option list from the cube constants:
//
//	P1: 0 greedy, 1 depth-first, 2 greedy with random picks     P2: 0 network simplex, 1 longest path
//	P3: 1 weighted-median ordering (default), 0 no ordering
//	P4: phase4.Alg value (1 VAlign 2 B&K 3 NS 4 SinkColoring 5 PackRight)   BK: forced B&K layout (-1 none)
//	P5: phase5.Alg value (0 none 1 straight 2 polyline 3 ortho 4 splines)
//	SZ: 0 no sizes, 1 fixed size, 2 per-node size for every node, 3 fixed + per-node for even nodes,
//	    4 per-node widths with zero heights, 5 concrete heterogeneous per-node sizes
//	VIRT: 1 = WithOutputVirtualNodes(true)     INTSZ: 1 = sizes/spacings are integers (NS positioner)
//	NSFIX / LSFIX >= 0: concrete NodeSpacing / LayerSpacing instead of symbolic ones
func vhOptions(in *vhIn, minLS float64) {
	in.p1, in.p2 = vhConst("P1"), vhConst("P2")
	in.p4, in.p5 = vhConst("P4"), vhConst("P5")
	in.bk = vhConst("BK")
	in.sz = vhConst("SZ")
	in.virt = vhConst("VIRT") == 1
	intsz := vhConst("INTSZ") == 1
	real := func(name string, lo float64) float64 {
		if intsz {
			return float64(vhInt(name, int(lo), vhConst("MAXSZ")))
		}
		return vhReal(name, lo, float64(vhConst("MAXSZ")))
	}
	in.w = make([]float64, in.n)
	in.h = make([]float64, in.n)
	in.listed = make([]bool, in.n)
	switch in.sz {
	case 1:
		in.fw, in.fh = real("fw", 0), real("fh", 0)
		for i := range in.w {
			in.w[i], in.h[i] = in.fw, in.fh
		}
	case 4:
		for i := 0; i < in.n; i++ {
			in.w[i] = real("w", 0)
			in.listed[i] = true
		}
	case 5:
		// concrete heterogeneous sizes
		for i := 0; i < in.n; i++ {
			in.w[i], in.h[i] = float64(10+4*i), float64(8+2*(i%3))
			in.listed[i] = true
		}
	case 6:
		// two WithNodeSize options in one call: even nodes in the first map, odd nodes and node 0 in the second
		in.w2 = make([]float64, in.n)
		in.h2 = make([]float64, in.n)
		for i := 0; i < in.n; i++ {
			if i%2 == 0 {
				in.w[i], in.h[i] = real("w", 0), real("h", 0)
				in.listed[i] = true
			}
			if i%2 == 1 || i == 0 {
				in.w2[i], in.h2[i] = real("w2", 0), real("h2", 0)
			}
		}
	case 2, 3:
		if in.sz == 3 {
			in.fw, in.fh = real("fw", 0), real("fh", 0)
		}
		for i := 0; i < in.n; i++ {
			in.w[i], in.h[i] = in.fw, in.fh
			if in.sz == 2 || i%2 == 0 {
				in.w[i], in.h[i] = real("w", 0), real("h", 0)
				in.listed[i] = true
			}
		}
	}
	in.ns = real("ns", float64(vhConst("MINNS")))
	in.ls = real("ls", minLS)
	if v := vhConst("NSFIX"); v >= 0 {
		in.ns = float64(v)
	}
	if v := vhConst("LSFIX"); v >= 0 {
		in.ls = float64(v)
	}
	in.buildOpts()
}

// buildOpts (re)creates the option list from the recorded values (used again for renamed / scaled twins).
func (in *vhIn) buildOpts() {
	in.opts = nil
	switch in.p1 {
	case 0:
		in.opts = append(in.opts, WithCycleBreaking(phase1.Greedy))
	case 1:
		in.opts = append(in.opts, WithCycleBreaking(phase1.DepthFirst))
	case 2:
		in.opts = append(in.opts, WithCycleBreaking(phase1.Greedy), WithNonDeterministicGreedyCycleBreaker())
	}
	if in.p2 == 1 {
		in.opts = append(in.opts, WithLayering(phase2.LongestPath))
	} else {
		in.opts = append(in.opts, WithLayering(phase2.NetworkSimplex))
	}
	if vhConst("P3") == 0 {
		in.opts = append(in.opts, WithOrdering(phase3.NoOrdering))
	}
	in.opts = append(in.opts, WithPositioning(phase4.Alg(in.p4)), WithEdgeRouting(phase5.Alg(in.p5)))
	if in.bk >= 0 {
		in.opts = append(in.opts, WithBrandesKoepfLayout(in.bk))
	}
	if in.sz == 1 || in.sz == 3 {
		in.opts = append(in.opts, WithNodeFixedSize(in.fw, in.fh))
	}
	if in.sz >= 2 {
		in.sizes = map[string]graph.Size{}
		for i := 0; i < in.n; i++ {
			if in.listed[i] {
				in.sizes[in.ids[i]] = graph.Size{W: in.w[i], H: in.h[i]}
			}
		}
		in.opts = append(in.opts, WithNodeSize(in.sizes))
		if in.sz == 6 {
			in.sizes2 = map[string]graph.Size{}
			for i := 0; i < in.n; i++ {
				if i%2 == 1 || i == 0 {
					in.sizes2[in.ids[i]] = graph.Size{W: in.w2[i], H: in.h2[i]}
				}
			}
			in.opts = append(in.opts, WithNodeSize(in.sizes2))
		}
	}
	in.opts = append(in.opts, WithNodeSpacing(in.ns), WithLayerSpacing(in.ls))
	if in.virt {
		in.opts = append(in.opts, WithOutputVirtualNodes(true))
	}
}

func vhNodeByID(l graph.Layout, id string) (graph.Node, int) {
	cnt := 0
	var r graph.Node
	for _, n := range l.Nodes {
		if n.ID == id {
			r = n
			cnt++
		}
	}
	return r, cnt
}

// vhInputAcyclic: the input edge list (self-loops ignored) has no directed cycle.
func vhInputAcyclic(in *vhIn) bool {
	var r [8][8]bool
	for i := 0; i < in.m; i++ {
		if in.f[i] != in.t[i] {
			r[in.f[i]][in.t[i]] = true
		}
	}
	for k := 0; k < in.n; k++ {
		for i := 0; i < in.n; i++ {
			for j := 0; j < in.n; j++ {
				if r[i][k] && r[k][j] {
					r[i][j] = true
				}
			}
		}
	}
	for i := 0; i < in.n; i++ {
		if r[i][i] {
			return false
		}
	}
	return true
}

// vhComp returns a component id per node (undirected connectivity of the input).
func vhComp(in *vhIn) []int {
	c := make([]int, in.n)
	for i := range c {
		c[i] = i
	}
	for round := 0; round < in.n; round++ {
		for i := 0; i < in.m; i++ {
			a, b := c[in.f[i]], c[in.t[i]]
			if a < b {
				c[in.t[i]] = a
			} else if b < a {
				c[in.f[i]] = b
			}
		}
		for i := 0; i < in.n; i++ {
			c[i] = c[c[i]]
		}
	}
	return c
}

type vhRecorder struct {
	events []vhEvent
}
type vhEvent struct {
	phase    int
	alg, key string
	val      any
}

func (r *vhRecorder) Log(phase int, alg, key string, val any) {
	r.events = append(r.events, vhEvent{phase, alg, key, val})
}

var _ imonitor.Monitor = (*vhRecorder)(nil)

// vhObserveLayout records the complete result for translator validation: the engine evaluates
// these terms under sampled input values, the driver runs the natively compiled harness on the
// same values and compares the two lists.
func vhObserveLayout(l graph.Layout) {
	vhObserveInt("nodes", len(l.Nodes))
	for _, n := range l.Nodes {
		vhObserveStr("id", n.ID)
		vhObserveReal("x", n.X)
		vhObserveReal("y", n.Y)
		vhObserveReal("w", n.W)
		vhObserveReal("h", n.H)
	}
	vhObserveInt("edges", len(l.Edges))
	for _, e := range l.Edges {
		vhObserveStr("from", e.FromID)
		vhObserveStr("to", e.ToID)
		vhObserveBool("arrowstart", e.ArrowHeadStart)
		vhObserveInt("npoints", len(e.Points))
		for _, p := range e.Points {
			vhObserveReal("px", p[0])
			vhObserveReal("py", p[1])
		}
	}
}
