package autog

// Shared builders for the end-to-end ("E-tier") harnesses: the real autog.Layout is called on an
// edge list whose shape comes from the cube constants, with symbolic node sizes, spacings, map
// iteration orders and RNG picks.

import (
	"strconv"

	"github.com/nulab/autog/graph"
	imonitor "github.com/nulab/autog/internal/monitor"
	"github.com/nulab/autog/internal/phase1"
	"github.com/nulab/autog/internal/phase2"
	"github.com/nulab/autog/internal/phase4"
	"github.com/nulab/autog/internal/phase5"
)

const vhMaxSize = 64

type vhIn struct {
	n      int // number of distinct nodes
	m      int
	f, t   []int
	ids    []string
	src    graph.EdgeSlice
	w, h   []float64 // configured size per node (what C02 expects in the output)
	ns, ls float64
	opts   []Option
	p4, p5 int
	virt   bool
}

func vhID(i int) string { return "n" + strconv.Itoa(i) }

// vhShape reads the concrete edge list of this cube: M edges ef[i] -> et[i] over nodes 0..N-1
// (canonical numbering: first-occurrence order, as graph.EdgeSlice.Populate numbers them).
func vhShape() *vhIn {
	in := &vhIn{m: vhConst("M")}
	for i := 0; i < in.m; i++ {
		f, t := vhConstIdx("ef", i), vhConstIdx("et", i)
		in.f = append(in.f, f)
		in.t = append(in.t, t)
		if f+1 > in.n {
			in.n = f + 1
		}
		if t+1 > in.n {
			in.n = t + 1
		}
	}
	for i := 0; i < in.n; i++ {
		in.ids = append(in.ids, vhID(i))
	}
	for i := 0; i < in.m; i++ {
		in.src = append(in.src, []string{in.ids[in.f[i]], in.ids[in.t[i]]})
	}
	return in
}

// vhOptions builds the option list from the cube constants:
//
//	P1: 0 greedy, 1 depth-first, 2 greedy with random picks     P2: 0 network simplex, 1 longest path
//	P4: phase4.Alg value (1 VAlign 2 B&K 3 NS 4 SinkColoring 5 PackRight)   BK: forced B&K layout (-1 none)
//	P5: phase5.Alg value (0 none 1 straight 2 polyline 3 ortho 4 splines)
//	SZ: 0 no sizes, 1 fixed size, 2 per-node size for every node, 3 fixed + per-node for even nodes
//	VIRT: 1 = WithOutputVirtualNodes(true)     INTSZ: 1 = sizes/spacings are integers (NS positioner)
func vhOptions(in *vhIn, minLS float64) {
	p1, p2 := vhConst("P1"), vhConst("P2")
	in.p4, in.p5 = vhConst("P4"), vhConst("P5")
	switch p1 {
	case 0:
		in.opts = append(in.opts, WithCycleBreaking(phase1.Greedy))
	case 1:
		in.opts = append(in.opts, WithCycleBreaking(phase1.DepthFirst))
	case 2:
		in.opts = append(in.opts, WithCycleBreaking(phase1.Greedy), WithNonDeterministicGreedyCycleBreaker())
	}
	if p2 == 1 {
		in.opts = append(in.opts, WithLayering(phase2.LongestPath))
	} else {
		in.opts = append(in.opts, WithLayering(phase2.NetworkSimplex))
	}
	in.opts = append(in.opts, WithPositioning(phase4.Alg(in.p4)), WithEdgeRouting(phase5.Alg(in.p5)))
	if bk := vhConst("BK"); bk >= 0 {
		in.opts = append(in.opts, WithBrandesKoepfLayout(bk))
	}
	intsz := vhConst("INTSZ") == 1
	real := func(name string, lo float64) float64 {
		if intsz {
			return float64(vhInt(name, int(lo), vhMaxSize))
		}
		return vhReal(name, lo, vhMaxSize)
	}
	in.w = make([]float64, in.n)
	in.h = make([]float64, in.n)
	switch sz := vhConst("SZ"); sz {
	case 1:
		w, h := real("fw", 0), real("fh", 0)
		in.opts = append(in.opts, WithNodeFixedSize(w, h))
		for i := range in.w {
			in.w[i], in.h[i] = w, h
		}
	case 2, 3:
		var fw, fh float64
		if sz == 3 {
			fw, fh = real("fw", 0), real("fh", 0)
			in.opts = append(in.opts, WithNodeFixedSize(fw, fh))
		}
		sizes := map[string]graph.Size{}
		for i := 0; i < in.n; i++ {
			in.w[i], in.h[i] = fw, fh
			if sz == 2 || i%2 == 0 {
				w, h := real("w", 0), real("h", 0)
				sizes[in.ids[i]] = graph.Size{W: w, H: h}
				in.w[i], in.h[i] = w, h
			}
		}
		if sz == 3 {
			// per-node overrides fixed regardless of option order? The docs say per-node wins.
			in.opts = append(in.opts, WithNodeSize(sizes))
		} else {
			in.opts = append(in.opts, WithNodeSize(sizes))
		}
	}
	in.ns = real("ns", 0)
	in.ls = real("ls", minLS)
	in.opts = append(in.opts, WithNodeSpacing(in.ns), WithLayerSpacing(in.ls))
	if vhConst("VIRT") == 1 {
		in.virt = true
		in.opts = append(in.opts, WithOutputVirtualNodes(true))
	}
}

func vhNodeByID(l graph.Layout, id string) (graph.Node, int) {
	cnt := 0
	var r graph.Node
	for _, n := range l.Nodes {
		if n.ID == id {
			r = n
			cnt++
		}
	}
	return r, cnt
}

// vhInputAcyclic: the input edge list (self-loops ignored) has no directed cycle.
func vhInputAcyclic(in *vhIn) bool {
	var r [8][8]bool
	for i := 0; i < in.m; i++ {
		if in.f[i] != in.t[i] {
			r[in.f[i]][in.t[i]] = true
		}
	}
	for k := 0; k < in.n; k++ {
		for i := 0; i < in.n; i++ {
			for j := 0; j < in.n; j++ {
				if r[i][k] && r[k][j] {
					r[i][j] = true
				}
			}
		}
	}
	for i := 0; i < in.n; i++ {
		if r[i][i] {
			return false
		}
	}
	return true
}

// vhComp returns a component id per node (undirected connectivity of the input).
func vhComp(in *vhIn) []int {
	c := make([]int, in.n)
	for i := range c {
		c[i] = i
	}
	for round := 0; round < in.n; round++ {
		for i := 0; i < in.m; i++ {
			a, b := c[in.f[i]], c[in.t[i]]
			if a < b {
				c[in.t[i]] = a
			} else if b < a {
				c[in.f[i]] = b
			}
		}
		for i := 0; i < in.n; i++ {
			c[i] = c[c[i]]
		}
	}
	return c
}

type vhRecorder struct {
	events []vhEvent
}
type vhEvent struct {
	phase    int
	alg, key string
	val      any
}

func (r *vhRecorder) Log(phase int, alg, key string, val any) {
	r.events = append(r.events, vhEvent{phase, alg, key, val})
}

var _ imonitor.Monitor = (*vhRecorder)(nil)
