package phase4

import "github.com/nulab/autog/internal/graph"

// Harness_P4_Layered (C04 / C12 / C16 kernel): the real positioner (Alg.Process = execX +
// assignYCoords) on an ARBITRARY proper layered ordered graph - the documented precondition of
// phase 4 - not only on the layerings phases 1-3 produce from small inputs. Cube: number of nodes
// per layer, the edges between adjacent layers (multi-edges allowed), which nodes are helper
// (virtual) nodes. Symbolic: width/height of every real node, NodeSpacing, LayerSpacing.
func Harness_P4_Layered() {
	nl := vhConst("L")
	ns := vhReal("ns", 0, 64)
	ls := vhReal("ls", 0, 64)
	g := &graph.DGraph{}
	var all [][]*graph.Node
	for l := 0; l < nl; l++ {
		k := vhConstIdx("k", l)
		layer := &graph.Layer{Index: l}
		var row []*graph.Node
		for i := 0; i < k; i++ {
			n := &graph.Node{Layer: l, LayerPos: i}
			if vhConstIdx("virt", l*8+i) == 1 {
				n.IsVirtual = true
			} else {
				n.W = vhReal("w", 0, 64)
				n.H = vhReal("h", 0, 64)
			}
			row = append(row, n)
			layer.Nodes = append(layer.Nodes, n)
			g.Nodes = append(g.Nodes, n)
		}
		all = append(all, row)
		g.Layers = append(g.Layers, layer)
	}
	m := vhConst("M")
	for i := 0; i < m; i++ {
		l, a, b := vhConstIdx("el", i), vhConstIdx("ea", i), vhConstIdx("eb", i)
		f, t := all[l][a], all[l+1][b]
		e := graph.NewEdge(f, t, 1)
		e.IsReversed = vhBool("rev") // any edge may be a reversed one; this phase must not care
		f.Out.Add(e)
		t.In.Add(e)
		g.Edges.Add(e)
	}
	if vhConst("PANICS") == 1 {
		vhCheckPanics()
	}
	alg := Alg(vhConst("P4"))
	alg.Process(g, graph.Params{NodeSpacing: ns, LayerSpacing: ls, BrandesKoepfLayout: -1})
	vhReach("positioned")
	gmin := 1e18
	for l, row := range all {
		lo, hi, sum := 1e18, -1e18, 0.0
		for i, n := range row {
			vhObserveReal("x", n.X)
			vhObserveReal("y", n.Y)
			gmin = min(gmin, n.X)
			vhAssert(n.X >= 0, "x-non-negative")
			if i > 0 {
				p := row[i-1]
				vhAssert(n.X >= p.X+p.W+ns, "consecutive-nodes-keep-order-and-spacing")
			}
			vhAssert(n.Y == row[0].Y, "nodes-of-a-layer-share-y")
			lo, hi, sum = min(lo, n.X), max(hi, n.X+n.W), sum+n.W
			if l > 0 {
				for _, u := range all[l-1] {
					vhAssert(n.Y >= u.Y+u.H+ls, "layer-starts-below-the-tallest-node-above-plus-spacing")
				}
			}
		}
		if alg == VerticalAlign || alg == PackRight {
			vhAssert(hi-lo == sum+float64(len(row)-1)*ns, "band-extent-is-widths-plus-exact-spacing")
		}
	}
	if alg == VerticalAlign || alg == PackRight {
		vhAssert(gmin == 0, "leftmost-node-at-zero")
	}
}
