package postprocessor

import "github.com/nulab/autog/internal/graph"

// Harness_Unreverse (C02/C05 kernel): the graph is in the state phase 1 leaves it in - a solver-chosen
// subset of the edges is stored reversed (endpoints swapped, IsReversed set, adjacency lists
// accordingly). UnreverseEdges must restore every edge to its input direction, clear all flags
// and keep the adjacency lists consistent.
func Harness_Unreverse() {
	n, m := vhConst("N"), vhConst("M")
	nodes := make([]*graph.Node, n)
	for i := range nodes {
		nodes[i] = &graph.Node{}
	}
	g := &graph.DGraph{Nodes: nodes}
	from := make([]*graph.Node, m)
	to := make([]*graph.Node, m)
	for i := 0; i < m; i++ {
		f, t := vhConstIdx("ef", i), vhConstIdx("et", i)
		from[i], to[i] = nodes[f], nodes[t]
		rev := vhBool("rev")
		var e *graph.Edge
		if rev {
			e = graph.NewEdge(nodes[t], nodes[f], 1)
			e.IsReversed = true
			nodes[t].Out.Add(e)
			nodes[f].In.Add(e)
		} else {
			e = graph.NewEdge(nodes[f], nodes[t], 1)
			nodes[f].Out.Add(e)
			nodes[t].In.Add(e)
		}
		g.Edges.Add(e)
	}
	UnreverseEdges(g)
	vhReach("done")
	vhAssert(len(g.Edges) == m, "edge-count")
	for i, e := range g.Edges {
		vhObserveBool("reversed", e.IsReversed)
		vhAssert(!e.IsReversed, "no-edge-left-reversed")
		vhAssert(e.From == from[i] && e.To == to[i], "input-direction-restored")
		for _, nd := range nodes {
			cin, cout := 0, 0
			for _, x := range nd.In {
				if x == e {
					cin++
				}
			}
			for _, x := range nd.Out {
				if x == e {
					cout++
				}
			}
			wantIn, wantOut := 0, 0
			if e.To == nd {
				wantIn = 1
			}
			if e.From == nd {
				wantOut = 1
			}
			vhAssert(cin == wantIn && cout == wantOut, "adjacency-lists-consistent")
		}
	}
}
