package phase2

import "github.com/nulab/autog/internal/graph"

const vhMaxN = 6

func vhGraph() (*graph.DGraph, []*graph.Node) {
	n, m := vhConst("N"), vhConst("M")
	nodes := make([]*graph.Node, n)
	for i := range nodes {
		nodes[i] = &graph.Node{}
	}
	g := &graph.DGraph{Nodes: nodes}
	for i := 0; i < m; i++ {
		f, t := vhConstIdx("ef", i), vhConstIdx("et", i)
		e := graph.NewEdge(nodes[f], nodes[t], 1)
		nodes[f].Out.Add(e)
		nodes[t].In.Add(e)
		g.Edges.Add(e)
	}
	return g, nodes
}

func vhNodeIdx(nodes []*graph.Node, n *graph.Node) int {
	for i := range nodes {
		if nodes[i] == n {
			return i
		}
	}
	return -1
}

// vhSpanningTree: the edges flagged IsInSpanningTree form a spanning tree (N-1 edges, connected).
func vhSpanningTree(g *graph.DGraph, nodes []*graph.Node) bool {
	n := len(nodes)
	cnt := 0
	var r [vhMaxN][vhMaxN]bool
	for _, e := range g.Edges {
		if e.IsInSpanningTree {
			cnt++
			a, b := vhNodeIdx(nodes, e.From), vhNodeIdx(nodes, e.To)
			r[a][b], r[b][a] = true, true
		}
	}
	for k := 0; k < n; k++ {
		for i := 0; i < n; i++ {
			for j := 0; j < n; j++ {
				if r[i][k] && r[k][j] {
					r[i][j] = true
				}
			}
		}
	}
	ok := cnt == n-1
	for i := 1; i < n; i++ {
		if !r[0][i] {
			ok = false
		}
	}
	return ok
}

// vhCutValue is the definition the code documents: remove tree edge e, the tree falls into the tail
// component (with e.From) and the head component (with e.To); cut value = total weight of the
// edges from tail to head (e included) minus the total weight of the edges from head to tail.
func vhCutValue(g *graph.DGraph, nodes []*graph.Node, e *graph.Edge) int {
	var head [vhMaxN]bool
	head[vhNodeIdx(nodes, e.To)] = true
	for k := 1; k < len(nodes); k++ {
		for _, y := range g.Edges {
			if y.IsInSpanningTree && y != e {
				a, b := vhNodeIdx(nodes, y.From), vhNodeIdx(nodes, y.To)
				if head[a] || head[b] {
					head[a], head[b] = true, true
				}
			}
		}
	}
	cv := 0
	for _, y := range g.Edges {
		a, b := vhNodeIdx(nodes, y.From), vhNodeIdx(nodes, y.To)
		if !head[a] && head[b] {
			cv += y.Weight
		}
		if head[a] && !head[b] {
			cv -= y.Weight
		}
	}
	return cv
}

// Harness_NS_Pivot: one pivot of the network simplex from an ARBITRARY feasible tight spanning
// tree (C10 / C03 lemma): the shape (a connected DAG) is the cube; the layering and the set of tree
// edges are symbolic and only assumed to satisfy the invariant (every slack >= 0, tree edges
// tight, tree spanning). The real setStreeValues, setCutValues, negCutValueTreeEdge,
// minSlackNonTreeEdge and exchange run; afterwards the invariant must hold again, the entering
// edge is in the tree, the leaving edge is not, the total edge length did not increase, and the
// cut values stored on the tree edges equal their definition for the tree they belong to.
func Harness_NS_Pivot() {
	g, nodes := vhGraph()
	for _, n := range nodes {
		n.Layer = vhInt("layer", 0, 2*len(nodes))
	}
	for _, e := range g.Edges {
		e.IsInSpanningTree = vhBool("tree")
		if vhConst("SYMDELTA") == 1 {
			// the network simplex is also run by the NetworkSimplex positioner, with arbitrary minimum lengths and weights
			e.Delta = vhInt("delta", 0, 3)
			e.Weight = vhInt("weight", 0, 2)
		}
		vhAssume(slack(e) >= 0)
		if e.IsInSpanningTree {
			vhAssume(slack(e) == 0)
		}
	}
	vhAssume(vhSpanningTree(g, nodes))
	before := 0 // weighted total edge length, the objective of the network simplex
	for _, e := range g.Edges {
		before += e.Weight * (e.To.Layer - e.From.Layer)
	}
	p := &networkSimplexProcessor{lim: make(graph.NodeIntMap), low: make(graph.NodeIntMap)}
	p.setStreeValues(g.Nodes[0])
	p.setCutValues(g)
	for _, x := range g.Edges {
		if x.IsInSpanningTree {
			vhAssert(x.CutValue == vhCutValue(g, nodes, x), "cut-values-of-the-initial-tree-match-their-definition")
		}
	}
	e := negCutValueTreeEdge(g.Edges)
	if e == nil {
		vhReach("already-optimal")
		return
	}
	f := p.minSlackNonTreeEdge(g.Edges, e)
	vhAssert(f != nil, "a-replacement-edge-exists-for-a-negative-cut-value")
	if f == nil {
		return
	}
	p.exchange(e, f, g)
	vhReach("pivoted")
	after := 0
	for _, x := range g.Edges {
		vhAssert(slack(x) >= 0, "pivot-keeps-every-edge-feasible")
		if x.IsInSpanningTree {
			vhAssert(slack(x) == 0, "pivot-keeps-tree-edges-tight")
		}
		after += x.Weight * (x.To.Layer - x.From.Layer)
	}
	vhAssert(f.IsInSpanningTree && !e.IsInSpanningTree, "entering-edge-in-leaving-edge-out")
	for _, x := range g.Edges {
		if x.IsInSpanningTree {
			// the next pivot reads these values: they must describe the NEW tree (the search for a
			// leaving edge, hence optimality at termination, depends on nothing else)
			vhAssert(x.CutValue == vhCutValue(g, nodes, x), "cut-values-after-the-pivot-match-their-definition")
		}
	}
	vhAssert(vhSpanningTree(g, nodes), "pivot-keeps-a-spanning-tree")
	vhAssert(after <= before, "pivot-does-not-increase-weighted-total-edge-length")
}

// Harness_NS_Balance (C03 / C10 lemma): normalize followed by vbalance from an ARBITRARY feasible
// layering (symbolic layers, minimum lengths 1): every edge stays feasible, the lowest layer is 0,
// no layer index grows beyond the previous maximum and the total edge length is unchanged (only
// nodes with equal in- and out-degree move).
func Harness_NS_Balance() {
	g, nodes := vhGraph()
	for _, n := range nodes {
		n.Layer = vhInt("layer", -3, 2*len(nodes))
	}
	before, hiBefore, loBefore := 0, -100, 100
	for _, e := range g.Edges {
		vhAssume(slack(e) >= 0)
		before += e.To.Layer - e.From.Layer
	}
	for _, n := range nodes {
		hiBefore, loBefore = max(hiBefore, n.Layer), min(loBefore, n.Layer)
	}
	normalize(g)
	vbalance(g)
	vhReach("balanced")
	after, lo, hi := 0, 100, -100
	for _, e := range g.Edges {
		vhAssert(slack(e) >= 0, "balancing-keeps-every-edge-feasible")
		after += e.To.Layer - e.From.Layer
	}
	for _, n := range nodes {
		vhObserveInt("layer", n.Layer)
		lo, hi = min(lo, n.Layer), max(hi, n.Layer)
	}
	vhAssert(lo == 0, "lowest-layer-is-zero")
	vhAssert(hi <= hiBefore-loBefore, "balancing-adds-no-layer")
	vhAssert(after == before, "balancing-keeps-total-edge-length")
}

// Harness_NS_Feasible: the whole real execNetworkSimplex (feasible tree, pivots, normalize,
// vbalance) on a connected DAG cube with SYMBOLIC minimum lengths per edge (0..2): the result is
// feasible and normalised. Symbolic lengths make the tight-tree growth shift layers below zero on
// small shapes, which is what larger graphs do with unit lengths.
func Harness_NS_Feasible() {
	g, nodes := vhGraph()
	for _, e := range g.Edges {
		e.Delta = vhInt("delta", 0, 2)
		e.IsReversed = vhBool("rev") // any edge may be a reversed one; the layerer must not care
	}
	execNetworkSimplex(g, graph.Params{NetworkSimplexThoroughness: 28, NetworkSimplexBalance: graph.OptionNsBalanceV})
	vhReach("returned")
	lowest := nodes[0].Layer
	for _, n := range nodes {
		vhObserveInt("layer", n.Layer)
		lowest = min(lowest, n.Layer)
	}
	vhAssert(lowest == 0, "layers-normalised")
	for _, e := range g.Edges {
		vhAssert(slack(e) >= 0, "every-edge-at-least-its-minimum-length")
	}
}

// Harness_NS_Optimal: the whole real execNetworkSimplex without balancing and with an iteration
// budget (28*100) far beyond the engine's loop bound - a run that would only end at the cap is cut
// by an unwinding query instead of being judged - on a connected DAG cube with SYMBOLIC minimum
// lengths (0..2; unit weights, or weights 1..2 when SYMW = 1): no feasible layering alt[] (solver
// variables) has a smaller weighted total length.
func Harness_NS_Optimal() {
	g, nodes := vhGraph()
	symw := vhConst("SYMW") == 1
	for _, e := range g.Edges {
		e.Delta = vhInt("delta", 0, 2)
		if symw {
			// weights 1..2: a weight-2 edge is a pair of parallel edges; the NS positioner runs this code with weights 1, 2, 8
			e.Weight = vhInt("weight", 1, 2)
		}
	}
	execNetworkSimplex(g, graph.Params{NetworkSimplexThoroughness: 28, NetworkSimplexMaxIterFactor: 100, NetworkSimplexBalance: 0})
	vhReach("returned")
	alt := make([]int, len(nodes))
	for i := range nodes {
		alt[i] = vhInt("alt", 0, 12)
	}
	total, totalAlt := 0, 0
	feasible := true
	for _, e := range g.Edges {
		a, b := alt[vhNodeIdx(nodes, e.From)], alt[vhNodeIdx(nodes, e.To)]
		if b-a < e.Delta {
			feasible = false
		}
		if e.Weight == 2 { // kept linear: no product of two symbolic values
			total += 2 * (e.To.Layer - e.From.Layer)
			totalAlt += 2 * (b - a)
		} else {
			total += e.To.Layer - e.From.Layer
			totalAlt += b - a
		}
	}
	if feasible {
		vhReach("alternative-feasible")
		vhAssert(totalAlt >= total, "total-edge-length-is-minimal")
	}
}

// Harness_LP (C11 / C03 kernel): the real LongestPath.Process on a connected DAG cube whose edges
// carry SOLVER-CHOSEN IsReversed flags (after cycle breaking any edge may be a reversed one; the
// layerer must treat the stored orientation only): every edge spans >= 1 layer, the number of
// layers is the number of nodes on the longest path and every node sits height(n)-1 layers above
// the bottom layer (height by relaxation).
func Harness_LP() {
	g, nodes := vhGraph()
	for _, e := range g.Edges {
		e.IsReversed = vhBool("rev")
	}
	LongestPath.Process(g, graph.Params{})
	vhReach("layered")
	n := len(nodes)
	height := make([]int, n)
	for i := range height {
		height[i] = 1
	}
	for round := 0; round < n; round++ {
		for _, e := range g.Edges {
			a, b := vhNodeIdx(nodes, e.From), vhNodeIdx(nodes, e.To)
			if height[b]+1 > height[a] {
				height[a] = height[b] + 1
			}
		}
	}
	maxh := 0
	for i := range nodes {
		maxh = max(maxh, height[i])
	}
	vhAssert(len(g.Layers) == maxh, "number-of-layers-equals-longest-path")
	for i, nd := range nodes {
		vhObserveInt("layer", nd.Layer)
		vhAssert(nd.Layer == maxh-height[i], "node-sits-height-above-bottom-layer")
	}
	for _, e := range g.Edges {
		vhAssert(e.To.Layer-e.From.Layer >= 1, "every-edge-spans-at-least-one-layer")
	}
}

// Harness_NS_HBalance (C04 lemma, the NetworkSimplex positioner's balancing): hbalance from an
// ARBITRARY feasible tight spanning tree with symbolic layering, minimum lengths and weights keeps
// every edge at its minimum length.
func Harness_NS_HBalance() {
	g, nodes := vhGraph()
	for _, n := range nodes {
		n.Layer = vhInt("layer", 0, 3*len(nodes))
	}
	for _, e := range g.Edges {
		e.IsInSpanningTree = vhBool("tree")
		e.Delta = vhInt("delta", 0, 3)
		e.Weight = vhInt("weight", 0, 2)
		vhAssume(slack(e) >= 0)
		if e.IsInSpanningTree {
			vhAssume(slack(e) == 0)
		}
	}
	vhAssume(vhSpanningTree(g, nodes))
	p := &networkSimplexProcessor{lim: make(graph.NodeIntMap), low: make(graph.NodeIntMap)}
	p.setStreeValues(g.Nodes[0])
	p.setCutValues(g)
	p.hbalance(g)
	vhReach("balanced")
	for _, e := range g.Edges {
		vhAssert(slack(e) >= 0, "hbalance-keeps-every-edge-at-its-minimum-length")
	}
}

// Harness_NS_FeasibleTree (C03 / C10 / C04 lemma): the real feasibleTree (initLayers + tight-tree
// growth) on a connected DAG cube with SYMBOLIC minimum lengths (0..3): it ends with a spanning
// tree (exactly N-1 marked edges, connected) of tight edges and a feasible layering - the
// invariant every pivot and the balancing steps rely on.
func Harness_NS_FeasibleTree() {
	g, nodes := vhGraph()
	for _, e := range g.Edges {
		e.Delta = vhInt("delta", 0, 3)
	}
	p := &networkSimplexProcessor{lim: make(graph.NodeIntMap), low: make(graph.NodeIntMap)}
	p.feasibleTree(g)
	vhReach("tree-built")
	cnt := 0
	for _, e := range g.Edges {
		vhAssert(slack(e) >= 0, "every-edge-feasible")
		if e.IsInSpanningTree {
			cnt++
			vhAssert(slack(e) == 0, "tree-edges-tight")
		}
	}
	vhObserveInt("tree-edges", cnt)
	vhAssert(cnt == len(nodes)-1, "tree-has-exactly-n-minus-1-edges")
	vhAssert(vhSpanningTree(g, nodes), "marked-edges-form-a-spanning-tree")
}
