package phase2

import "github.com/nulab/autog/internal/graph"

const vhMaxN = 6

func vhGraph() (*graph.DGraph, []*graph.Node) {
	n, m := vhConst("N"), vhConst("M")
	nodes := make([]*graph.Node, n)
	for i := range nodes {
		nodes[i] = &graph.Node{}
	}
	g := &graph.DGraph{Nodes: nodes}
	for i := 0; i < m; i++ {
		f, t := vhConstIdx("ef", i), vhConstIdx("et", i)
		e := graph.NewEdge(nodes[f], nodes[t], 1)
		nodes[f].Out.Add(e)
		nodes[t].In.Add(e)
		g.Edges.Add(e)
	}
	return g, nodes
}

func vhNodeIdx(nodes []*graph.Node, n *graph.Node) int {
	for i := range nodes {
		if nodes[i] == n {
			return i
		}
	}
	return -1
}

// vhSpanningTree: the edges flagged IsInSpanningTree form a spanning tree (N-1 edges, connected).
func vhSpanningTree(g *graph.DGraph, nodes []*graph.Node) bool {
	n := len(nodes)
	cnt := 0
	var r [vhMaxN][vhMaxN]bool
	for _, e := range g.Edges {
		if e.IsInSpanningTree {
			cnt++
			a, b := vhNodeIdx(nodes, e.From), vhNodeIdx(nodes, e.To)
			r[a][b], r[b][a] = true, true
		}
	}
	for k := 0; k < n; k++ {
		for i := 0; i < n; i++ {
			for j := 0; j < n; j++ {
				if r[i][k] && r[k][j] {
					r[i][j] = true
				}
			}
		}
	}
	ok := cnt == n-1
	for i := 1; i < n; i++ {
		if !r[0][i] {
			ok = false
		}
	}
	return ok
}

// Harness_NS_Pivot: one pivot of the network simplex from an ARBITRARY feasible tight spanning
// tree (C10 / C03 lemma): the shape (a connected DAG) is the cube; the layering and the set of tree
// edges are symbolic and only assumed to satisfy the invariant (every slack >= 0, tree edges
// tight, tree spanning). The real setStreeValues, setCutValues, negCutValueTreeEdge,
// minSlackNonTreeEdge and exchange run; afterwards the invariant must hold again, the entering
// edge is in the tree, the leaving edge is not, and the total edge length did not increase.
func Harness_NS_Pivot() {
	g, nodes := vhGraph()
	for _, n := range nodes {
		n.Layer = vhInt("layer", 0, 2*len(nodes))
	}
	for _, e := range g.Edges {
		e.IsInSpanningTree = vhBool("tree")
		if vhConst("SYMDELTA") == 1 {
			// the network simplex is also run by the NetworkSimplex positioner, with arbitrary minimum lengths and weights
			e.Delta = vhInt("delta", 0, 3)
			e.Weight = vhInt("weight", 0, 2)
		}
		vhAssume(slack(e) >= 0)
		if e.IsInSpanningTree {
			vhAssume(slack(e) == 0)
		}
	}
	vhAssume(vhSpanningTree(g, nodes))
	before := 0 // weighted total edge length, the objective of the network simplex
	for _, e := range g.Edges {
		before += e.Weight * (e.To.Layer - e.From.Layer)
	}
	p := &networkSimplexProcessor{lim: make(graph.NodeIntMap), low: make(graph.NodeIntMap)}
	p.setStreeValues(g.Nodes[0])
	p.setCutValues(g)
	e := negCutValueTreeEdge(g.Edges)
	if e == nil {
		vhReach("already-optimal")
		return
	}
	f := p.minSlackNonTreeEdge(g.Edges, e)
	vhAssert(f != nil, "a-replacement-edge-exists-for-a-negative-cut-value")
	if f == nil {
		return
	}
	p.exchange(e, f, g)
	vhReach("pivoted")
	after := 0
	for _, x := range g.Edges {
		vhAssert(slack(x) >= 0, "pivot-keeps-every-edge-feasible")
		if x.IsInSpanningTree {
			vhAssert(slack(x) == 0, "pivot-keeps-tree-edges-tight")
		}
		after += x.Weight * (x.To.Layer - x.From.Layer)
	}
	vhAssert(f.IsInSpanningTree && !e.IsInSpanningTree, "entering-edge-in-leaving-edge-out")
	vhAssert(vhSpanningTree(g, nodes), "pivot-keeps-a-spanning-tree")
	vhAssert(after <= before, "pivot-does-not-increase-weighted-total-edge-length")
}
