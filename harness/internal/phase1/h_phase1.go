package phase1

import "github.com/nulab/autog/internal/graph"

const vhMaxN = 12

// vhSymGraph builds a symbolic multigraph with exactly n nodes and m edges in canonical form:
// node k occurs in the edge list only after nodes 0..k-1 (exactly the numbering
// graph.EdgeSlice.Populate produces), no self-loops (the pre-processor strips them before phase 1).
// The first `fixed` edges are concretised from the cube constants ef[i], et[i].
func vhSymGraph(n, m int) (*graph.DGraph, []*graph.Node) {
	nodes := make([]*graph.Node, n)
	for i := range nodes {
		nodes[i] = &graph.Node{}
	}
	g := &graph.DGraph{Nodes: nodes}
	fixed := vhConst("fixed")
	used := 1
	for i := 0; i < m; i++ {
		var f, t int
		if i < fixed {
			f, t = vhConstIdx("ef", i), vhConstIdx("et", i)
		} else {
			f = vhInt("f", 0, n-1)
			t = vhInt("t", 0, n-1)
		}
		vhAssume(f != t)
		if i == 0 {
			vhAssume(f == 0)
		}
		vhAssume(f <= used)
		if f == used {
			used++
		}
		vhAssume(t <= used)
		if t == used {
			used++
		}
		e := graph.NewEdge(nodes[f], nodes[t], 1)
		nodes[f].Out.Add(e)
		nodes[t].In.Add(e)
		g.Edges.Add(e)
	}
	vhAssume(used >= n)
	return g, nodes
}

func vhIndex(nodes []*graph.Node, n *graph.Node) int {
	for i := range nodes {
		if nodes[i] == n {
			return i
		}
	}
	return -1
}

// vhAcyclic is the reference spec: transitive closure of the edges as currently stored (with the
// edge `flip`, if any, taken in the opposite direction) has no node reaching itself.
func vhAcyclic(g *graph.DGraph, nodes []*graph.Node, flip *graph.Edge) bool {
	var r [vhMaxN][vhMaxN]bool
	n := len(nodes)
	for _, e := range g.Edges {
		a, b := vhIndex(nodes, e.From), vhIndex(nodes, e.To)
		if e == flip {
			a, b = b, a
		}
		r[a][b] = true
	}
	for k := 0; k < n; k++ {
		for i := 0; i < n; i++ {
			for j := 0; j < n; j++ {
				if r[i][k] && r[k][j] {
					r[i][j] = true
				}
			}
		}
	}
	ok := true
	for i := 0; i < n; i++ {
		if r[i][i] {
			ok = false
		}
	}
	return ok
}

// vhConnected: the undirected closure joins every node with node 0 (phase-1 precondition).
func vhConnected(g *graph.DGraph, nodes []*graph.Node) bool {
	var r [vhMaxN][vhMaxN]bool
	n := len(nodes)
	for _, e := range g.Edges {
		a, b := vhIndex(nodes, e.From), vhIndex(nodes, e.To)
		r[a][b] = true
		r[b][a] = true
	}
	for k := 0; k < n; k++ {
		for i := 0; i < n; i++ {
			for j := 0; j < n; j++ {
				if r[i][k] && r[k][j] {
					r[i][j] = true
				}
			}
		}
	}
	ok := true
	for i := 1; i < n; i++ {
		if !r[0][i] {
			ok = false
		}
	}
	return ok
}

// listsConsistent: every edge sits exactly once in From.Out and To.In and nowhere else.
func vhListsConsistent(g *graph.DGraph, nodes []*graph.Node) bool {
	ok := true
	for _, e := range g.Edges {
		for _, n := range nodes {
			cin, cout := 0, 0
			for _, f := range n.In {
				if f == e {
					cin++
				}
			}
			for _, f := range n.Out {
				if f == e {
					cout++
				}
			}
			wantIn, wantOut := 0, 0
			if e.To == n {
				wantIn = 1
			}
			if e.From == n {
				wantOut = 1
			}
			if cin != wantIn || cout != wantOut {
				ok = false
			}
		}
	}
	return ok
}

// Harness_Phase1 drives the real phase1.Process (pre-pass + breaker + re-check) with alg = ALG:
//   - C03/C01: the result is acyclic (and Process does not panic "still cyclic")
//   - C14: acyclic input => no edge reversed; DFS: the reversed set is irredundant
//   - C02: adjacency lists stay consistent with the edge endpoints, original direction is
//     recoverable from IsReversed
func Harness_Phase1() {
	n, m := vhConst("N"), vhConst("M")
	alg := Alg(vhConst("ALG"))
	g, nodes := vhSymGraph(n, m)
	vhAssume(vhConnected(g, nodes))
	if vhConst("PANICS") == 1 {
		vhCheckPanics()
	}
	wasDag := vhAcyclic(g, nodes, nil)
	// remember the input orientation
	from := make([]*graph.Node, m)
	for i, e := range g.Edges {
		from[i] = e.From
	}
	params := graph.Params{GreedyCycleBreakerRandomNodeChoice: vhConst("RANDOM") == 1}
	alg.Process(g, params)
	vhReach("post")
	vhAssert(vhAcyclic(g, nodes, nil), "result-acyclic")
	vhAssert(vhListsConsistent(g, nodes), "adjacency-lists-consistent")
	for i, e := range g.Edges {
		vhObserveBool("reversed", e.IsReversed)
		vhAssert(e.IsReversed == (e.From != from[i]), "isreversed-flag-matches-orientation")
		if wasDag {
			if vhConst("KNOWN_G1") == 1 {
				vhKnown(!e.IsReversed, "G1-parallel-edge-reversed-on-dag")
			} else {
				vhAssert(!e.IsReversed, "no-reversal-on-dag")
			}
		}
		if alg == DepthFirst && e.IsReversed {
			vhReach("some-reversed")
			vhAssert(!vhAcyclic(g, nodes, e), "dfs-irredundant")
		}
	}
}

// vhConcreteGraph builds the cube's graph (all edges concrete).
func vhConcreteGraph() (*graph.DGraph, []*graph.Node) {
	n, m := vhConst("N"), vhConst("M")
	nodes := make([]*graph.Node, n)
	for i := range nodes {
		nodes[i] = &graph.Node{}
	}
	g := &graph.DGraph{Nodes: nodes}
	for i := 0; i < m; i++ {
		f, t := vhConstIdx("ef", i), vhConstIdx("et", i)
		e := graph.NewEdge(nodes[f], nodes[t], 1)
		nodes[f].Out.Add(e)
		nodes[t].In.Add(e)
		g.Edges.Add(e)
	}
	return g, nodes
}

func vhEdgeIndex(g *graph.DGraph, e *graph.Edge) int {
	for i, x := range g.Edges {
		if x == e {
			return i
		}
	}
	return -1
}

// Harness_Phase1_Deterministic (C07 kernel): the real phase1.Alg.Process runs on two copies of the
// same cube under independent symbolic map-iteration orders; everything later phases read - which
// edges are reversed, the order of g.Edges and the ORDER of every node's In and Out list - must be
// the same. A sat answer is only a candidate: the driver confirms it through the public API
// (Harness_E_C07 on the same edge list, repeated natively) before anything is reported.
// NOT REGISTERED in any check: on the unchanged tree it decides 42 000 cubes in under 3 minutes, but
// under a change that makes the adjacency order depend on a map order (seed C07-m2) every cyclic cube
// becomes a heap of ite-trees and the run does not end; kept for experiments (DESIGN.md section 8).
func Harness_Phase1_Deterministic() {
	alg := Alg(vhConst("ALG"))
	g1, n1 := vhConcreteGraph()
	g2, n2 := vhConcreteGraph()
	params := graph.Params{}
	alg.Process(g1, params)
	alg.Process(g2, params)
	vhReach("both-returned")
	same := len(g1.Edges) == len(g2.Edges)
	for i := range g1.Edges {
		if i < len(g2.Edges) {
			a, b := g1.Edges[i], g2.Edges[i]
			if a.IsReversed != b.IsReversed || vhIndex(n1, a.From) != vhIndex(n2, b.From) || vhIndex(n1, a.To) != vhIndex(n2, b.To) {
				same = false
			}
		}
	}
	vhAssert(same, "same-edges-reversed-under-every-map-order")
	lists := true
	for i := range n1 {
		a, b := n1[i], n2[i]
		if len(a.Out) != len(b.Out) || len(a.In) != len(b.In) {
			lists = false
			continue
		}
		for k := range a.Out {
			if vhEdgeIndex(g1, a.Out[k]) != vhEdgeIndex(g2, b.Out[k]) {
				lists = false
			}
		}
		for k := range a.In {
			if vhEdgeIndex(g1, a.In[k]) != vhEdgeIndex(g2, b.In[k]) {
				lists = false
			}
		}
	}
	vhAssert(lists, "same-adjacency-list-order-under-every-map-order")
}
