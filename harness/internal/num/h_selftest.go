package num

import "math"

// engine self-tests: tiny programs whose result is known; each assert must be unsat.

func Harness_SelfMaxLoop() {
	a := vhInt("a", -3, 3)
	b := vhInt("b", -3, 3)
	xs := []int{a, b}
	m := math.MinInt
	var best []int
	for _, x := range xs {
		if x >= m {
			if x > m {
				best = nil
				m = x
			}
			best = append(best, x)
		}
	}
	vhReach("end")
	vhAssert(m > math.MinInt, "max-found")
	vhAssert(m >= a && m >= b, "is-max")
	vhAssert(len(best) >= 1, "best-nonempty")
	if a == b {
		vhAssert(len(best) == 2, "tie-two")
	}
}
