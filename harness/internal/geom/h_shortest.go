package geom

// Harness_C19: real Triangulate + Shortest on a corridor of K stacked rectangles whose shape
// (left/right edges on a small grid, heights) is the cube; symbolic: the x of the start point on the
// top side of the first rectangle and of the end point on the bottom side of the last one (this is
// how phase5 calls the router). With concrete y's every orientation test is linear in the symbolic x.
//
// Oracle: the path runs end -> start, is strictly y-monotone, every segment stays inside the
// corridor (checked on every slab boundary it crosses), and it is taut: every inner vertex is a
// reflex corner of the corridor and the chord between its neighbours passes on the outer side of
// that corner. Inside + taut <=> Euclidean shortest in a simply connected polygon.
func Harness_C19() {
	k := vhConst("K")
	var rects []Rect
	ys := make([]float64, k+1)
	for i := 0; i <= k; i++ {
		ys[i] = float64(vhConstIdx("y", i))
	}
	ls := make([]float64, k)
	rs := make([]float64, k)
	for i := 0; i < k; i++ {
		ls[i], rs[i] = float64(vhConstIdx("l", i)), float64(vhConstIdx("r", i))
		rects = append(rects, Rect{TL: P{ls[i], ys[i]}, BR: P{rs[i], ys[i+1]}})
	}
	sx := vhReal("sx", ls[0], rs[0])
	ex := vhReal("ex", ls[k-1], rs[k-1])
	if vhConst("OPEN") == 1 {
		vhAssume(sx > ls[0] && sx < rs[0] && ex > ls[k-1] && ex < rs[k-1])
	}
	if vhConst("OPEN") == 2 {
		// the class of the known finding G11c: start or end point ON A CORNER of its rectangle
		vhAssume(sx == ls[0] || sx == rs[0] || ex == ls[k-1] || ex == rs[k-1])
	}
	start, end := P{sx, ys[0]}, P{ex, ys[k]}
	if vhConst("PANICS") == 1 {
		vhCheckPanics()
	}
	path := Shortest(start, end, rects)
	vhReach("returned")
	n := len(path)
	vhObserveInt("len", n)
	for _, q := range path {
		vhObserveReal("x", q.X)
		vhObserveReal("y", q.Y)
	}
	vhAssert(n >= 2, "path-has-two-points")
	if n < 2 {
		return
	}
	vhAssert(path[0] == end && path[n-1] == start, "path-runs-from-end-to-start")
	// xAt: x of the segment a-b (a.Y > b.Y) at height y
	xAt := func(a, b P, y float64) float64 { return b.X + (a.X-b.X)*(y-b.Y)/(a.Y-b.Y) }
	for j := 0; j+1 < n; j++ {
		a, b := path[j], path[j+1] // a is lower (towards the end), b upper
		vhAssert(a.Y > b.Y, "path-strictly-y-monotone")
		if !(a.Y > b.Y) {
			return
		}
		for i := 0; i < k; i++ {
			// portion of the segment inside slab i = [ys[i], ys[i+1]]
			top, btm := max(ys[i], b.Y), min(ys[i+1], a.Y)
			if top <= btm {
				xt, xb := xAt(a, b, top), xAt(a, b, btm)
				vhAssert(xt >= ls[i] && xt <= rs[i] && xb >= ls[i] && xb <= rs[i], "segment-inside-corridor")
			}
		}
	}
	for j := 1; j+1 < n; j++ {
		v, lo, up := path[j], path[j-1], path[j+1]
		if !(lo.Y > v.Y && v.Y > up.Y) {
			continue
		}
		chord := xAt(lo, up, v.Y)
		taut := false
		for i := 1; i < k; i++ {
			if v.Y != ys[i] {
				continue
			}
			// reflex corners on the boundary between rect i-1 and rect i
			leftCorner := max(ls[i-1], ls[i])
			rightCorner := min(rs[i-1], rs[i])
			if ls[i-1] != ls[i] && v.X == leftCorner && chord <= v.X {
				taut = true
			}
			if rs[i-1] != rs[i] && v.X == rightCorner && chord >= v.X {
				taut = true
			}
		}
		vhAssert(taut, "inner-vertex-is-a-wrapped-reflex-corner")
	}
}
