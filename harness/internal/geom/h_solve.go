package geom

// Root finder (C20, algebraic part). The oracle works relative to the solver's own epsilon design:
// a leading coefficient with |a| < epsilon3 is treated as zero (the truncated polynomial is the
// subject). Arithmetic is exact real arithmetic (sqrt/cbrt introduced by their defining equations).

func vhIn(x float64, roots []float64) bool {
	found := false
	for _, r := range roots {
		if r == x {
			found = true
		}
	}
	return found
}

// Harness_C20_solve2: solve2/solve1 return exactly the real roots.
func Harness_C20_solve2() {
	a, b, c := vhReal("a", -8, 8), vhReal("b", -8, 8), vhReal("c", -8, 8)
	x := vhReal("x", -1000, 1000) // an arbitrary candidate root
	roots := solve2([]float64{c, b, a})
	vhReach("returned")
	az, bz, cz := aeq0(a), aeq0(b), aeq0(c)
	var px float64 // the (truncated) polynomial at x
	switch {
	case !az:
		px = a*x*x + b*x + c
	case !bz:
		px = b*x + c
	default:
		px = c
	}
	if az && bz && cz {
		vhAssert(roots == nil, "degenerate-zero-polynomial-returns-nil")
		return
	}
	for _, r := range roots {
		var pr float64
		switch {
		case !az:
			pr = a*r*r + b*r + c
		case !bz:
			pr = b*r + c
		default:
			pr = c
		}
		vhAssert(pr == 0, "every-returned-value-is-a-root")
	}
	if az && bz {
		vhAssert(len(roots) == 0, "constant-polynomial-has-no-root")
		return
	}
	if !az {
		// quadratic: completeness split by the sign of the discriminant the code computes
		b2a := b / (2 * a)
		disc := b2a*b2a - c/a
		switch {
		case disc > 0:
			// two distinct returned roots (+ soundness) exhaust the at most two roots of a quadratic
			vhAssert(len(roots) == 2 && roots[0] != roots[1], "quadratic-positive-discriminant-two-distinct-roots")
		case disc < 0:
			vhAssert(px != 0, "quadratic-negative-discriminant-has-no-real-root")
		default:
			if px == 0 {
				vhAssert(vhIn(x, roots), "quadratic-zero-discriminant-root-is-returned")
			}
		}
		return
	}
	if px == 0 {
		vhReach("candidate-is-a-root")
		vhAssert(vhIn(x, roots), "linear-root-is-returned")
	}
}

// Harness_C20_solve3: cubic with non-vanishing leading coefficient, discriminant >= 0 (Cardano
// branch; the trigonometric branch disc < 0 is outside the claim).
func Harness_C20_solve3() {
	a, b, c, d := vhReal("a", -4, 4), vhReal("b", -4, 4), vhReal("c", -4, 4), vhReal("d", -4, 4)
	x := vhReal("x", -1000, 1000)
	vhAssume(!aeq0(a))
	// same discriminant as the code computes
	b3a := b / (3 * a)
	p := b3a * b3a
	q := 2*b3a*p - b3a*(c/a) + d/a
	p = (c/a)/3 - p
	disc := q*q + 4*p*p*p
	vhAssume(disc >= 0)
	roots := solve3([]float64{d, c, b, a})
	vhReach("returned")
	for _, r := range roots {
		vhAssert(a*r*r*r+b*r*r+c*r+d == 0, "every-returned-value-is-a-root")
	}
	if disc == 0 {
		vhReach("zero-discriminant")
		if a*x*x*x+b*x*x+c*x+d == 0 {
			vhAssert(vhIn(x, roots), "cubic-zero-discriminant-root-is-returned")
		}
	} else {
		vhAssert(len(roots) == 1, "cubic-positive-discriminant-returns-one-root")
		if vhConst("UNIQ") == 1 && a*x*x*x+b*x*x+c*x+d == 0 {
			vhAssert(vhIn(x, roots), "cubic-positive-discriminant-root-is-unique")
		}
	}
}
