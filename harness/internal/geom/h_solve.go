package geom

// Root finder (C20, algebraic part). The oracle works relative to the solver's own epsilon design:
// a leading coefficient with |a| < epsilon3 is treated as zero (the truncated polynomial is the
// subject). Arithmetic is exact real arithmetic (sqrt/cbrt introduced by their defining equations).

func vhIn(x float64, roots []float64) bool {
	found := false
	for _, r := range roots {
		if r == x {
			found = true
		}
	}
	return found
}

// Harness_C20_solve2: solve2/solve1 return exactly the real roots.
func Harness_C20_solve2() {
	a, b, c := vhReal("a", -8, 8), vhReal("b", -8, 8), vhReal("c", -8, 8)
	x := vhReal("x", -1000, 1000) // an arbitrary candidate root
	roots := solve2([]float64{c, b, a})
	vhReach("returned")
	az, bz, cz := aeq0(a), aeq0(b), aeq0(c)
	var px float64 // the (truncated) polynomial at x
	switch {
	case !az:
		px = a*x*x + b*x + c
	case !bz:
		px = b*x + c
	default:
		px = c
	}
	if az && bz && cz {
		vhAssert(roots == nil, "degenerate-zero-polynomial-returns-nil")
		return
	}
	for _, r := range roots {
		var pr float64
		switch {
		case !az:
			pr = a*r*r + b*r + c
		case !bz:
			pr = b*r + c
		default:
			pr = c
		}
		vhAssert(pr == 0, "every-returned-value-is-a-root")
	}
	if az && bz {
		vhAssert(len(roots) == 0, "constant-polynomial-has-no-root")
		return
	}
	if !az {
		// quadratic: completeness split by the sign of the discriminant the code computes
		b2a := b / (2 * a)
		disc := b2a*b2a - c/a
		switch {
		case disc > 0:
			// two distinct returned roots (+ soundness) exhaust the at most two roots of a quadratic
			vhAssert(len(roots) == 2 && roots[0] != roots[1], "quadratic-positive-discriminant-two-distinct-roots")
		case disc < 0:
			vhAssert(px != 0, "quadratic-negative-discriminant-has-no-real-root")
		default:
			if px == 0 {
				vhAssert(vhIn(x, roots), "quadratic-zero-discriminant-root-is-returned")
			}
		}
		return
	}
	if px == 0 {
		vhReach("candidate-is-a-root")
		vhAssert(vhIn(x, roots), "linear-root-is-returned")
	}
}

// Harness_C20_solve3: cubic with non-vanishing leading coefficient, discriminant >= 0 (Cardano
// branch; the trigonometric branch disc < 0 is outside the claim).
func Harness_C20_solve3() {
	cr := float64(vhConst("CRANGE"))
	a, b, c, d := vhReal("a", -cr, cr), vhReal("b", -cr, cr), vhReal("c", -cr, cr), vhReal("d", -cr, cr)
	x := vhReal("x", -1000, 1000)
	vhAssume(!aeq0(a))
	// same discriminant as the code computes
	b3a := b / (3 * a)
	p := b3a * b3a
	q := 2*b3a*p - b3a*(c/a) + d/a
	p = (c/a)/3 - p
	disc := q*q + 4*p*p*p
	vhAssume(disc >= 0)
	roots := solve3([]float64{d, c, b, a})
	vhReach("returned")
	for _, r := range roots {
		vhAssert(a*r*r*r+b*r*r+c*r+d == 0, "every-returned-value-is-a-root")
	}
	if disc == 0 {
		vhReach("zero-discriminant")
		if a*x*x*x+b*x*x+c*x+d == 0 {
			vhAssert(vhIn(x, roots), "cubic-zero-discriminant-root-is-returned")
		}
	} else {
		vhAssert(len(roots) == 1, "cubic-positive-discriminant-returns-one-root")
		if vhConst("UNIQ") == 1 && a*x*x*x+b*x*x+c*x+d == 0 {
			vhAssert(vhIn(x, roots), "cubic-positive-discriminant-root-is-unique")
		}
	}
}

// Harness_C20_solve3trig: cubic with non-vanishing leading coefficient and negative discriminant
// (trigonometric branch): three pairwise distinct values are returned and each is a root -- a cubic
// has at most three roots, so every real root is returned and nothing else. cos((atan2+2k*pi)/3) is
// introduced by the triple-angle identity (engine stub), sqrt/cbrt by their defining equations.
// A and B3 (= b/3 numerator) may be fixed by cube constants (AFIX/BFIX != 0 selects the table value).
func Harness_C20_solve3trig() {
	cr := float64(vhConst("CRANGE"))
	a, b := vhReal("a", -cr, cr), vhReal("b", -cr, cr)
	if k := vhConst("AFIX"); k != 0 {
		a = float64(vhConst("ANUM")) / float64(vhConst("ADEN"))
	}
	if k := vhConst("BFIX"); k != 0 {
		b = float64(vhConst("BNUM")) / float64(vhConst("BDEN"))
	}
	c, d := vhReal("c", -cr, cr), vhReal("d", -cr, cr)
	vhAssume(!aeq0(a))
	b3a := b / (3 * a)
	p := b3a * b3a
	q := 2*b3a*p - b3a*(c/a) + d/a
	p = (c/a)/3 - p
	disc := q*q + 4*p*p*p
	vhAssume(disc < 0)
	// REGION 0 is the whole claim; 1..3 repeat it on a part of the domain (sign of q, i.e. the quadrant
	// of the angle), so that a counterexample that exists only in one part is the model the solver returns
	switch vhConst("REGION") {
	case 1:
		vhAssume(q > 0)
	case 2:
		vhAssume(q < 0)
	case 3:
		vhAssume(q == 0)
	}
	roots := solve3([]float64{d, c, b, a})
	vhReach("returned")
	vhAssert(len(roots) == 3, "cubic-negative-discriminant-returns-three-values")
	if len(roots) != 3 {
		return
	}
	for _, r := range roots {
		vhAssert(vhZero(a*r*r*r+b*r*r+c*r+d), "every-returned-value-is-a-root")
	}
	sep := func(u, v float64) bool { return !vhZero(u - v) }
	vhAssert(sep(roots[0], roots[1]) && sep(roots[0], roots[2]) && sep(roots[1], roots[2]), "cubic-negative-discriminant-roots-pairwise-distinct")
}

// ---- curve / barrier intersection kernel (C20) ----

// vhCurve: a table of control polygons (exact small rationals): S-shaped cubics that cross a line
// three times, one-crossing cubics, curves whose x- or y-polynomial degenerates to a quadratic / a
// line / a constant, a curve that is a straight segment.
func vhCurve(i int) ctrlp {
	t := [][8]float64{
		{0, 0, 4, 2, -2, 4, 2, 6},    // S-shape in x: x(t) has three real roots region
		{0, 0, 1, 2, 3, 4, 4, 6},     // gentle curve, monotone in both
		{0, 0, 0, 2, 3, 4, 3, 6},     // vertical tangents
		{1, 0, 1, 2, 1, 4, 1, 6},     // x constant: vertical straight segment (zero x-polynomial)
		{0, 0, 1, 2, 2, 4, 3, 6},     // straight slanted segment, uniform parametrisation (x, y linear)
		{0, 0, 2, 2, 2, 4, 0, 6},     // x quadratic (cubic coefficient of x vanishes), symmetric bulge
		{0, 0, 6, 3, -3, 3, 3, 6},    // strong S with a loop-like bulge, y not monotone control polygon
		{0, 0, 3, 0, 0, 6, 3, 6},     // horizontal end tangents
		{2, 1, -1, 2, 5, 5, 2, 6},    // S-shape crossing its own chord
		{0, 0, 1, 6, 2, -1, 3, 5},    // y(t) non-monotone: horizontal line crossed three times
	}
	r := t[i]
	return ctrlp{P{r[0], r[1]}, P{r[2], r[3]}, P{r[4], r[5]}, P{r[6], r[7]}}
}

func vhPoly(co []float64, t float64) float64 { return co[0] + t*(co[1]+t*(co[2]+t*co[3])) }

// vhGray: a leading coefficient inside the root finder's epsilon band but not zero -- there solve3
// deliberately solves a truncated polynomial (tolerance design of the code, outside the exact claim).
func vhGray(co []float64) bool {
	a, b, c := co[3], co[2], co[1]
	if a != 0 && aeq0(a) {
		return true
	}
	if a == 0 && b != 0 && aeq0(b) {
		return true
	}
	if a == 0 && b == 0 && c != 0 && aeq0(c) {
		return true
	}
	if a == 0 && b == 0 && c == 0 && co[0] != 0 && aeq0(co[0]) {
		return true
	}
	return false
}

// Harness_C20_intersect: the real curveIntersects / curveContained on a concrete cubic (cube CURVE)
// and a barrier segment with symbolic end points; KIND 0 vertical, 1 horizontal, 2 slanted with the
// slope fixed by the cube (SLN/SLD) and symbolic position and extent. A symbolic parameter t stands
// for "any point of the curve".
//   sound:    every returned value lies in [0,1] and the curve point at it lies on the segment;
//   complete: if the curve point at t (0<=t<=1) lies on the segment, t is one of the returned values
//             (unless the curve runs along the barrier's line: nil, "infinitely many", by design);
//   contained: curveContained = false exactly when some such t lies in [eps2, 1-eps2] and the point is
//             at squared distance >= eps1 from both barrier end points.
func Harness_C20_intersect() {
	var bz ctrlp
	if k := vhConst("CURVE"); k >= 0 {
		bz = vhCurve(k)
		if vhConst("SUMMARY_SOLVE3") == 1 {
			// scaled by 1/8 so that the polynomial coefficients stay inside the range of the root finder's contract
			bz = ctrlp{scalep(bz.p0, 0.125), scalep(bz.p1, 0.125), scalep(bz.p2, 0.125), scalep(bz.p3, 0.125)}
		}
	} else {
		// arbitrary control polygon (used with the root finder replaced by its contract)
		bz = ctrlp{P{vhReal("p0x", -1, 1), vhReal("p0y", -1, 1)}, P{vhReal("p1x", -1, 1), vhReal("p1y", -1, 1)},
			P{vhReal("p2x", -1, 1), vhReal("p2y", -1, 1)}, P{vhReal("p3x", -1, 1), vhReal("p3y", -1, 1)}}
	}
	var seg Segment
	switch vhConst("KIND") {
	case 0:
		x := vhReal("sx", -8, 8)
		seg = Segment{P{x, vhReal("sy0", -8, 8)}, P{x, vhReal("sy1", -8, 8)}}
		vhAssume(seg.A.Y != seg.B.Y)
	case 1:
		y := vhReal("sy", -8, 8)
		seg = Segment{P{vhReal("sx0", -8, 8), y}, P{vhReal("sx1", -8, 8), y}}
		vhAssume(seg.A.X != seg.B.X)
	case 3:
		seg = Segment{P{vhReal("ax", -8, 8), vhReal("ay", -8, 8)}, P{vhReal("bx", -8, 8), vhReal("by", -8, 8)}}
		vhAssume(seg.A.X != seg.B.X)
	default:
		sl := float64(vhConst("SLN")) / float64(vhConst("SLD"))
		ax, ay, dx := vhReal("ax", -8, 8), vhReal("ay", -8, 8), vhReal("dx", -8, 8)
		vhAssume(dx != 0)
		seg = Segment{P{ax, ay}, P{ax + dx, ay + sl*dx}}
	}
	t := vhReal("t", 0, 1)
	vhInstantiate(t)
	xc, yc := bz.xcoeff(), bz.ycoeff()
	px, py := vhPoly(xc, t), vhPoly(yc, t)
	// is (px,py) on the closed segment?  cross product zero and inside the bounding box
	cross := (seg.B.X-seg.A.X)*(py-seg.A.Y) - (seg.B.Y-seg.A.Y)*(px-seg.A.X)
	inbox := px >= min(seg.A.X, seg.B.X) && px <= max(seg.A.X, seg.B.X) && py >= min(seg.A.Y, seg.B.Y) && py <= max(seg.A.Y, seg.B.Y)
	on := vhZero(cross) && inbox
	// the polynomial handed to solve3 (recomputed the way the code does) must not be in the epsilon band
	var co []float64
	if seg.B.X-seg.A.X == 0 {
		co = bz.xcoeff()
		co[0] -= seg.A.X
	} else {
		slope := (seg.B.Y - seg.A.Y) / (seg.B.X - seg.A.X)
		co = bz.scoeff(slope)
		co[0] += slope*seg.A.X - seg.A.Y
	}
	vhAssume(!vhGray(co))
	if vhConst("SUMMARY_SOLVE3") == 1 {
		// the root finder's contract is established for coefficients in [-1000,1000]
		for _, v := range co {
			vhAssume(v >= -1000 && v <= 1000)
		}
	}

	roots := curveIntersects(bz, seg)
	vhReach("returned")
	along := co[0] == 0 && co[1] == 0 && co[2] == 0 && co[3] == 0
	if along {
		vhReach("curve-runs-along-the-barrier-line")
		vhAssert(roots == nil, "curve-along-barrier-line-reports-infinitely-many")
		return
	}
	for _, r := range roots {
		vhAssert(r >= 0 && r <= 1, "returned-parameter-in-unit-interval")
		rx, ry := vhPoly(xc, r), vhPoly(yc, r)
		rcross := (seg.B.X-seg.A.X)*(ry-seg.A.Y) - (seg.B.Y-seg.A.Y)*(rx-seg.A.X)
		rin := rx >= min(seg.A.X, seg.B.X) && rx <= max(seg.A.X, seg.B.X) && ry >= min(seg.A.Y, seg.B.Y) && ry <= max(seg.A.Y, seg.B.Y)
		vhAssert(vhZero(rcross) && rin, "returned-parameter-is-an-intersection")
	}
	if on {
		vhReach("curve-point-on-barrier")
		vhAssert(vhIn(t, roots), "every-intersection-is-returned")
	}
	if vhConst("MODE") == 0 {
		return
	}
	cont := curveContained(bz, []Segment{seg})
	far := sqdistp(P{px, py}, seg.A) >= epsilon1 && sqdistp(P{px, py}, seg.B) >= epsilon1
	if on && t >= epsilon2 && t <= 1-epsilon2 && far {
		vhReach("crossing-away-from-barrier-ends")
		vhAssert(!cont, "crossing-away-from-barrier-ends-is-not-contained")
	}
	if !cont {
		vhReach("not-contained")
	}
}

// ---- spline fitter, control-flow part (C20) ----

// Harness_C20_fit: the real FitSpline on an arbitrary strictly y-monotone path of NP points (what
// Shortest returns, C19) with zero tangents (as phase 5 passes them). With SUMMARY_CONTAINED = 1 the
// containment verdict of every candidate curve is an arbitrary boolean, so the claim covers every
// sequence of verdicts and every barrier set: the recursion terminates (unwinding queries), no index
// is out of range, at most NP-1 pieces are returned, the first starts at the path's first point, the
// last ends at its last point and consecutive pieces join end to end.
func Harness_C20_fit() {
	n := vhConst("NP")
	var path []P
	if k := vhConst("PATH"); k >= 0 {
		// concrete zigzag paths (what Shortest returns in a stepped corridor); the symbolic dimension is then the
		// sequence of containment verdicts alone
		tab := [][]P{
			{{0, 0}, {4, 2}, {1, 5}},
			{{0, 0}, {3, 1}, {3, 4}, {0, 6}},
			{{2, 0}, {0, 2}, {5, 3}, {1, 6}, {4, 8}},
			{{0, 0}, {1, 1}, {2, 3}, {2, 4}, {6, 5}, {7, 9}},
			{{5, 0}, {4, 1}, {3, 2}, {2, 3}, {1, 4}, {0, 5}, {0, 6}},
			{{0, 0}, {0, 3}, {0, 7}},
		}
		path = tab[k]
		n = len(path)
	} else {
		path = make([]P, n)
		for i := range path {
			path[i] = P{vhReal("px", -8, 8), vhReal("py", -8, 8)}
			if i > 0 {
				vhAssume(path[i].Y >= path[i-1].Y+1)
			}
		}
	}
	if vhConst("PANICS") == 1 {
		vhCheckPanics()
	}
	pieces := FitSpline(path, P{}, P{}, nil)
	vhReach("returned")
	vhAssert(len(pieces) >= 1 && len(pieces) <= n-1, "between-one-and-n-minus-one-pieces")
	if len(pieces) == 0 {
		return
	}
	vhAssert(pieces[0].p0 == path[0], "first-piece-starts-at-first-path-point")
	vhAssert(pieces[len(pieces)-1].p3 == path[n-1], "last-piece-ends-at-last-path-point")
	for i := 1; i < len(pieces); i++ {
		vhAssert(pieces[i-1].p3 == pieces[i].p0, "pieces-join-end-to-end")
	}
}

// Harness_C20_tryfit2: a path of two points is always fitted (the base case of FitSpline's recursion):
// tryfit can only give up on its first-iteration length test, and the control polygon is never shorter
// than the chord (triangle inequality over three hypot values, decided by the solver).
func Harness_C20_tryfit2() {
	a := P{vhReal("ax", -8, 8), vhReal("ay", -8, 8)}
	b := P{vhReal("bx", -8, 8), vhReal("by", -8, 8)}
	v1 := P{vhReal("v1x", -8, 8), vhReal("v1y", -8, 8)}
	v2 := P{vhReal("v2x", -8, 8), vhReal("v2y", -8, 8)}
	bz, ok := tryfit(ctrlp{a, v1, v2, b}, []P{a, b}, nil)
	vhReach("returned")
	vhAssert(ok, "two-point-path-is-always-fitted")
	vhAssert(bz.p0 == a && bz.p3 == b, "end-points-kept")
}
