package phase3

import "github.com/nulab/autog/internal/graph"

// Harness_CountCrossings (C12 kernel): the real Barth-Mutzel counter against the naive pair count.
// Cube: sizes of three consecutive layers and the edge set between them (simple: no two edges with
// the same endpoints). Symbolic: the in-layer order of every layer (a permutation chosen by the
// solver) and the index of the first layer (0..100: the counter selects edges by layer index).
func Harness_CountCrossings() {
	na, nb, nc := vhConst("NA"), vhConst("NB"), vhConst("NC")
	base := vhInt("base", 0, 100)
	mk := func(n, idx int, name string) *graph.Layer {
		l := &graph.Layer{Index: idx}
		pos := make([]int, n)
		for i := 0; i < n; i++ {
			pos[i] = vhInt(name, 0, n-1)
			for j := 0; j < i; j++ {
				vhAssume(pos[j] != pos[i])
			}
		}
		l.Nodes = make([]*graph.Node, n)
		for i := 0; i < n; i++ {
			nd := &graph.Node{Layer: idx, LayerPos: pos[i]}
			for p := 0; p < n; p++ {
				if pos[i] == p {
					l.Nodes[p] = nd
				}
			}
		}
		return l
	}
	// nodes are identified by their creation index; creation[i] of layer x sits at l.Nodes[pos[i]]
	la, lb, lc := mk(na, base, "pa"), mk(nb, base+1, "pb"), mk(nc, base+2, "pc")
	byCreation := func(l *graph.Layer, n int) []*graph.Node {
		// creation order is recovered from LayerPos assignment order: rebuild by scanning
		out := make([]*graph.Node, 0, n)
		out = append(out, l.Nodes...)
		return out
	}
	A, B, C := byCreation(la, na), byCreation(lb, nb), byCreation(lc, nc)
	type ed struct{ f, t *graph.Node }
	var ab, bc []ed
	m1, m2 := vhConst("MAB"), vhConst("MBC")
	for i := 0; i < m1; i++ {
		f, t := A[vhConstIdx("abf", i)], B[vhConstIdx("abt", i)]
		e := graph.NewEdge(f, t, 1)
		f.Out.Add(e)
		t.In.Add(e)
		ab = append(ab, ed{f, t})
	}
	for i := 0; i < m2; i++ {
		f, t := B[vhConstIdx("bcf", i)], C[vhConstIdx("bct", i)]
		e := graph.NewEdge(f, t, 1)
		f.Out.Add(e)
		t.In.Add(e)
		bc = append(bc, ed{f, t})
	}
	if vhConst("PANICS") == 1 {
		vhCheckPanics()
	}
	naive := func(es []ed) int {
		c := 0
		for i := range es {
			for j := i + 1; j < len(es); j++ {
				x, y := es[i], es[j]
				if (x.f.LayerPos < y.f.LayerPos && x.t.LayerPos > y.t.LayerPos) || (x.f.LayerPos > y.f.LayerPos && x.t.LayerPos < y.t.LayerPos) {
					c++
				}
			}
		}
		return c
	}
	got1 := countCrossings(la, lb)
	got2 := countCrossings(lb, lc)
	got1r := countCrossings(lb, la)
	vhReach("counted")
	vhAssert(got1 == naive(ab), "counter-equals-naive-count-upper-pair")
	vhAssert(got2 == naive(bc), "counter-equals-naive-count-lower-pair")
	vhAssert(got1r == got1, "counter-is-symmetric-in-its-arguments")
}
