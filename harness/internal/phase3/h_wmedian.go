package phase3

import (
	"github.com/nulab/autog/internal/graph"
	imonitor "github.com/nulab/autog/internal/monitor"
)

type vhRec struct {
	crossings []int
}

func (r *vhRec) Log(phase int, alg, key string, val any) {
	if key == "crossings" {
		if v, ok := val.(int); ok {
			r.crossings = append(r.crossings, v)
		}
	}
}

// Harness_P3_Layered (C12 / C13 kernel): the real execWeightedMedian on an ARBITRARY layered graph
// (cube: nodes per layer in list order, edges between adjacent layers, order of g.Nodes rotated by
// ROT): the crossing number it reports is the crossing number of the order it installs, LayerPos
// is a permutation per layer and Layer.Nodes is sorted by it.
func Harness_P3_Layered() {
	nl := vhConst("L")
	g := &graph.DGraph{}
	var all [][]*graph.Node
	for l := 0; l < nl; l++ {
		k := vhConstIdx("k", l)
		layer := &graph.Layer{Index: l}
		var row []*graph.Node
		for i := 0; i < k; i++ {
			n := &graph.Node{Layer: l}
			row = append(row, n)
			layer.Nodes = append(layer.Nodes, n)
		}
		all = append(all, row)
		g.Layers = append(g.Layers, layer)
	}
	// g.Nodes: layer by layer, rotated
	var flat []*graph.Node
	for _, row := range all {
		flat = append(flat, row...)
	}
	rot := vhConst("ROT") % len(flat)
	g.Nodes = append(append([]*graph.Node{}, flat[rot:]...), flat[:rot]...)
	type ed struct{ f, t *graph.Node }
	var es []ed
	m := vhConst("M")
	for i := 0; i < m; i++ {
		l, a, b := vhConstIdx("el", i), vhConstIdx("ea", i), vhConstIdx("eb", i)
		f, t := all[l][a], all[l+1][b]
		e := graph.NewEdge(f, t, 1)
		e.IsReversed = vhBool("rev") // any edge may be a reversed one; this phase must not care
		f.Out.Add(e)
		t.In.Add(e)
		g.Edges.Add(e)
		es = append(es, ed{f, t})
	}
	rec := &vhRec{}
	imonitor.Set(rec)
	execWeightedMedian(g, graph.Params{WMedianMaxIter: 24})
	imonitor.Reset()
	vhReach("ordered")
	vhAssert(len(rec.crossings) == 1, "one-crossings-event")
	drawn := 0
	for i := range es {
		for j := i + 1; j < len(es); j++ {
			x, y := es[i], es[j]
			if x.f.Layer != y.f.Layer {
				continue
			}
			if (x.f.LayerPos < y.f.LayerPos && x.t.LayerPos > y.t.LayerPos) || (x.f.LayerPos > y.f.LayerPos && x.t.LayerPos < y.t.LayerPos) {
				drawn++
			}
		}
	}
	vhObserveInt("drawn", drawn)
	if len(rec.crossings) == 1 {
		vhAssert(rec.crossings[0] == drawn, "reported-crossings-equal-crossings-of-installed-order")
	}
	for _, l := range g.Layers {
		for i, n := range l.Nodes {
			vhAssert(n.LayerPos == i, "layer-nodes-sorted-by-position-and-positions-are-a-permutation")
		}
	}
	// C13: a rooted tree (single root, every other node exactly one parent; or the mirror image) is ordered without crossings
	roots, sinks, outTree, inTree := 0, 0, true, true
	for _, n := range flat {
		if len(n.In) == 0 {
			roots++
		} else if len(n.In) != 1 {
			outTree = false
		}
		if len(n.Out) == 0 {
			sinks++
		} else if len(n.Out) != 1 {
			inTree = false
		}
	}
	if (outTree && roots == 1) || (inTree && sinks == 1) {
		vhReach("tree")
		vhAssert(drawn == 0, "rooted-tree-ordered-without-crossings")
	}
}
