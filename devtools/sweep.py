#!/usr/bin/env python3
"""Development aid, NOT a registered check and not a deciding method: runs the NATIVE build of a Layout-level harness
(the same oracle code the engine encodes) on random shapes larger than the registered bounds, to learn where a
property might fail beyond them, so that a solver-based obligation (a lemma or a new cube family) can be aimed there.

  devtools/sweep.py <prop> [count] [maxN] [maxM] [seed]
"""
import json, os, random, re, subprocess, sys, tempfile, shutil
sys.path.insert(0, os.path.dirname(os.path.dirname(os.path.abspath(__file__))))
from vlib import obligations, replay as rp

TEST = '''package PKGNAME

import (
	"bufio"
	"encoding/json"
	"fmt"
	"os"
	"strings"
	"testing"
)

func TestVerifSweep(t *testing.T) {
	f, err := os.Open(os.Getenv("VH_SWEEP"))
	if err != nil {
		panic(err)
	}
	sc := bufio.NewScanner(f)
	sc.Buffer(make([]byte, 1<<20), 1<<24)
	hs := map[string]func(){HMAP}
	i := 0
	for sc.Scan() {
		var rec struct {
			H string
			F vhFile
		}
		if err := json.Unmarshal(sc.Bytes(), &rec); err != nil {
			panic(err)
		}
		vhF = rec.F
		fmt.Printf("VH-START idx=%d\\n", i)
		failed, _, p, av := vhRunOnce(hs[rec.H])
		if !av && (len(failed) > 0 || p != "") {
			first := ""
			if p != "" {
				first = strings.SplitN(p, "\\n", 2)[0]
			}
			fmt.Printf("VH-SWEEP idx=%d failed=%q panic=%q\\n", i, failed, first)
		}
		i++
	}
}
'''


def rand_shape(rnd, maxN, maxM, selfloops, connected, simple=False):
    while True:
        n = rnd.randint(2, maxN)
        m = rnd.randint(n - 1 if connected else 1, max(maxM, n - 1))
        if simple:
            m = min(m, n * (n - 1) // 2)
        el = []
        if connected:
            perm = list(range(n))
            rnd.shuffle(perm)
            for i in range(1, n):
                a, b = perm[i], perm[rnd.randrange(i)]
                if rnd.random() < 0.5:
                    a, b = b, a
                el.append((a, b))
        while len(el) < m:
            a, b = rnd.randrange(n), rnd.randrange(n)
            if a == b and not (selfloops and rnd.random() < 0.3):
                continue
            if simple and ((a, b) in el or (b, a) in el):
                continue
            el.append((a, b))
        rnd.shuffle(el)
        # canonical renumbering (first occurrence)
        num = {}
        out = []
        for a, b in el:
            for x in (a, b):
                if x not in num:
                    num[x] = len(num)
            out.append((num[a], num[b]))
        return out


def main():
    prop = sys.argv[1]
    count = int(sys.argv[2]) if len(sys.argv) > 2 else 2000
    maxN = int(sys.argv[3]) if len(sys.argv) > 3 else 8
    maxM = int(sys.argv[4]) if len(sys.argv) > 4 else 12
    seed = int(sys.argv[5]) if len(sys.argv) > 5 else 1
    rnd = random.Random(seed)
    spec = obligations.get(prop, "quick")
    combos = []
    for ob in spec["obligations"]:
        if ob["pkg"] != "." or ob.get("hang_probe") or "splines" in ob["name"]:
            continue
        seen = set()
        shapes_ = [[(c["ef[%d]" % i], c["et[%d]" % i]) for i in range(c["M"])] for c in ob["cubes"]]
        kind = dict(selfloops=any(a == b for sh in shapes_ for a, b in sh),
                    connected=all(obligations.is_connected(sh, 1 + max(max(e) for e in sh)) for sh in shapes_),
                    simple=all(len({frozenset(e) for e in sh}) == len(sh) for sh in shapes_),
                    tree="tree" in ob["name"])
        for c in ob["cubes"]:
            o = dict(ob.get("consts") or {})
            o.update({k: v for k, v in c.items() if not re.match(r"^(M|ef\[|et\[)", k)})
            key = json.dumps(o, sort_keys=True)
            if key not in seen:
                seen.add(key)
                combos.append((ob["func"], o, kind))
    if not combos:
        print("no Layout-level obligation for", prop)
        return 2
    funcs = sorted({c[0] for c in combos})
    vals_w = ["0", "1", "3", "10", "25", "40", "1/2", "17"]
    vals_s = ["1", "2", "10", "40", "5/2"]
    work = tempfile.mkdtemp(prefix="vhsweep")
    recs = []
    for i in range(count):
        func, o, kind = rnd.choice(combos)
        if kind["tree"]:
            n = rnd.randint(2, maxN)
            el = [(rnd.randrange(i), i) for i in range(1, n)]
            rnd.shuffle(el)
            num = {}
            sh = []
            for a, b in el:
                for x in (a, b):
                    if x not in num:
                        num[x] = len(num)
                sh.append((num[a], num[b]))
        else:
            sh = rand_shape(rnd, maxN, maxM, kind["selfloops"], kind["connected"], kind["simple"])
        consts = dict(o)
        consts["M"] = len(sh)
        for j, (a, b) in enumerate(sh):
            consts["ef[%d]" % j] = a
            consts["et[%d]" % j] = b
        intsz = consts.get("INTSZ") == 1
        mx = consts.get("MAXSZ", 64)
        def pick(pool):
            v = rnd.choice(pool)
            if intsz:
                v = str(min(int(eval(v)) , mx))
            return v
        values = {"w": [pick(vals_w) for _ in range(maxN + 2)], "h": [pick(vals_w) for _ in range(maxN + 2)],
                  "fw": [pick(vals_w)], "fh": [pick(vals_w)], "ns": [pick(vals_s)], "ls": [pick(vals_s)]}
        recs.append({"H": func, "F": {"values": values, "consts": consts}})
    sw = os.path.join(work, "sweep.jsonl")
    with open(sw, "w") as f:
        for r in recs:
            f.write(json.dumps(r) + "\n")
    hdir = os.path.join(rp.VERIF, "harness", "_root")
    pname = rp.pkg_name(hdir)
    overlay = {}
    for f in sorted(os.listdir(hdir)):
        if f.endswith(".go"):
            overlay[os.path.join(rp.REPO, "zz_verif_" + f)] = os.path.join(hdir, f)
    nat = open(os.path.join(rp.VERIF, "harness", "vh_native.go.tmpl")).read().replace("PKGNAME", pname)
    p = os.path.join(work, "vh_native.go")
    open(p, "w").write(nat)
    overlay[os.path.join(rp.REPO, "zz_verif_vh.go")] = p
    p = os.path.join(work, "sweep_test.go")
    open(p, "w").write(TEST.replace("PKGNAME", pname).replace("HMAP", ", ".join('"%s": %s' % (f, f) for f in funcs)))
    overlay[os.path.join(rp.REPO, "zz_verif_sweep_test.go")] = p
    ov = os.path.join(work, "overlay.json")
    json.dump({"Replace": overlay}, open(ov, "w"))
    env = dict(rp.GOENV, VH_SWEEP=sw, VH_REPLAY=sw)
    r = subprocess.run(["bash", "-c", "go test -v -vet=off -count=1 -overlay %s -run '^TestVerifSweep$' -timeout 280s ." % ov], cwd=rp.REPO, env=env, capture_output=True, text=True)
    raw = r.stdout + r.stderr
    hits = {}
    for m in re.finditer(r"VH-SWEEP idx=(\d+) failed=(\[.*?\]) panic=\"(.*)\"", raw):
        idx = int(m.group(1))
        labels = re.findall(r'"([^"]*)"', m.group(2)) or ["panic:" + m.group(3)[:80]]
        for l in set(labels):
            hits.setdefault(l, []).append(idx)
    last = re.findall(r"VH-START idx=(\d+)", raw)
    print("%s: %d records, ran %s, %d failing labels" % (prop, len(recs), (int(last[-1]) + 1) if last else 0, len(hits)))
    if "VH-START" not in raw or "FAIL" in raw and not hits:
        print(raw[-1500:])
    for l, idxs in hits.items():
        small = min(idxs, key=lambda i: recs[i]["F"]["consts"]["M"])
        c = recs[small]["F"]["consts"]
        print("  %s: %d hits; smallest M=%d: %s" % (l, len(idxs), c["M"], json.dumps(recs[small])[:900]))
    shutil.rmtree(work, ignore_errors=True)


if __name__ == "__main__":
    sys.exit(main())
