import json,sys
o=json.load(open(sys.argv[1]))
print(o['status'],o.get('message',''),'load',round(o['load_secs'],1))
for r in o['runs']:
    print({k:v for k,v in r.items() if k not in ('queries','nondets','consts','validation_samples')})
    for q in r['queries'] or []: print(' ',q['kind'],'|',q['label'],'|',q['verdict'],round(q['secs'],2),'nodes',q['nodes'],{k:v for k,v in (q.get('model') or {}).items() if not k.startswith('pick')} if q['kind']!='reach' else '')
