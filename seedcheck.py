#!/usr/bin/env python3
"""Development helper (not a registered check): confirm a seeded change and run checks against it.

  seedcheck.py confirm <src-dir> <seed-name>     src-dir holds patch.diff, demo_test.go, notes.md
      -> in a scratch worktree of /repo HEAD: patch applies, builds, existing suite passes, demo passes without / fails with;
         on success copies to /verif/seeded/<seed-name>/
  seedcheck.py run <seed-name> <prop> [tier]     apply the patch to /repo, run ./check <prop> <tier>, undo it
"""
import json, os, re, shutil, subprocess, sys, time

VERIF = os.path.dirname(os.path.abspath(__file__))
REPO = "/repo"
ENV = dict(os.environ, GOFLAGS="-mod=mod", GOPROXY="off", GOSUMDB="off", GOTOOLCHAIN="local")


def sh(cmd, cwd=None, timeout=900):
    p = subprocess.run(cmd, shell=True, cwd=cwd, env=ENV, capture_output=True, text=True, timeout=timeout)
    return p.returncode, p.stdout + p.stderr


def demo_place(demo):
    first = open(demo).readline()
    m = re.search(r"place in:\s*(\S+)", first)
    return m.group(1) if m else "."


def confirm(src, name):
    wt = "/tmp/seedwt_" + name
    sh("git -C %s worktree remove --force %s" % (REPO, wt))
    rc, out = sh("git -C %s worktree add -q --detach %s HEAD" % (REPO, wt))
    if rc:
        print("worktree failed", out)
        return 1
    res = {"name": name, "source": src}
    try:
        demo = os.path.join(src, "demo_test.go")
        place = demo_place(demo)
        dst = os.path.join(wt, place, "zz_seed_demo_test.go")
        # demo without the patch
        shutil.copy(demo, dst)
        race = "-race" if "-race" in open(os.path.join(src, "notes.md")).read() and "must run with" in open(os.path.join(src, "notes.md")).read() else ""
        rc0, out0 = sh("go test %s -vet=off -count=1 -timeout 300s ./%s" % (race, place), cwd=wt)
        res["demo_without_patch"] = "pass" if rc0 == 0 else "FAIL"
        os.remove(dst)
        rc, out = sh("git apply --whitespace=nowarn %s" % os.path.join(src, "patch.diff"), cwd=wt)
        res["applies"] = rc == 0
        if rc:
            res["apply_error"] = out[-800:]
            print(json.dumps(res, indent=1))
            return 1
        rc, out = sh("go build ./... && go test -vet=off -count=1 ./...", cwd=wt)
        res["suite_with_patch"] = "pass" if rc == 0 else "FAIL"
        if rc:
            res["suite_output"] = out[-1500:]
        shutil.copy(demo, dst)
        rc1, out1 = sh("go test %s -vet=off -count=1 -timeout 300s ./%s" % (race, place), cwd=wt, timeout=1200)
        res["demo_with_patch"] = "fail" if rc1 != 0 else "PASSES"
        res["demo_with_patch_tail"] = out1[-600:]
        ok = res["demo_without_patch"] == "pass" and res["suite_with_patch"] == "pass" and res["demo_with_patch"] == "fail"
        res["confirmed"] = ok
        if ok:
            d = os.path.join(VERIF, "seeded", name)
            os.makedirs(d, exist_ok=True)
            for f in ("patch.diff", "demo_test.go", "notes.md"):
                shutil.copy(os.path.join(src, f), os.path.join(d, f))
            meta = {"name": name, "confirmed_at_repo_head": sh("git -C %s rev-parse --short HEAD" % REPO)[1].strip(),
                    "ran": ["git apply patch.diff (scratch worktree of /repo HEAD)", "go build ./... && go test -vet=off -count=1 ./...  -> pass",
                            "demo without patch -> pass", "demo with patch -> fail"], "demo_place": place, "race": bool(race)}
            mp = os.path.join(d, "meta.json")
            if os.path.exists(mp):
                old = json.load(open(mp))
                old.update(meta)
                meta = old
            json.dump(meta, open(mp, "w"), indent=1)
        print(json.dumps({k: v for k, v in res.items() if k != "demo_with_patch_tail" or not ok}, indent=1))
        return 0 if ok else 1
    finally:
        sh("git -C %s worktree remove --force %s" % (REPO, wt))


def run(name, prop, tier="quick", extra_env=None):
    d = os.path.join(VERIF, "seeded", name)
    rc, out = sh("git -C %s status --porcelain" % REPO)
    if out.strip():
        print("/repo is dirty, refusing:", out)
        return 2
    rc, out = sh("git -C %s apply --whitespace=nowarn %s" % (REPO, os.path.join(d, "patch.diff")))
    if rc:
        print("apply failed", out)
        return 2
    t0 = time.time()
    try:
        env = dict(os.environ)
        env.update(extra_env or {})
        p = subprocess.run([os.path.join(VERIF, "check"), prop, tier], cwd=VERIF, capture_output=True, text=True, env=env, timeout=7200)
        out = p.stdout + p.stderr
        rc = p.returncode
    finally:
        sh("git -C %s checkout -- ." % REPO)
        sh("git -C %s clean -fdq" % REPO)
    lines = [l for l in out.splitlines() if l.startswith(("VIOLATION", "ENGINE-ERROR", "UNCONFIRMED", "INCONCLUSIVE", "KNOWN-FINDING")) or " cubes, " in l]
    print("seed=%s check=%s %s rc=%d %.0fs" % (name, prop, tier, rc, time.time() - t0))
    for l in lines[:8]:
        print("   ", l[:600])
    # restore the evidence of the unchanged tree is the caller's business (evidence is rewritten by every run)
    return rc


def runwt(name, prop, tier="quick"):
    """like run, but in a scratch worktree (VERIF_REPO) so that /repo stays untouched; evidence goes to /tmp/ev_seed"""
    d = os.path.join(VERIF, "seeded", name)
    wt = "/tmp/seedrunwt_" + name
    sh("git -C %s worktree remove --force %s" % (REPO, wt))
    rc, out = sh("git -C %s worktree add -q --detach %s HEAD" % (REPO, wt))
    if rc:
        print("worktree failed", out)
        return 2
    t0 = time.time()
    try:
        rc, out = sh("git apply --whitespace=nowarn %s" % os.path.join(d, "patch.diff"), cwd=wt)
        if rc:
            print("apply failed", out)
            return 2
        env = dict(os.environ, VERIF_REPO=wt, VERIF_EVIDENCE_DIR="/tmp/ev_seed")
        os.makedirs("/tmp/ev_seed", exist_ok=True)
        p = subprocess.run([os.path.join(VERIF, "check"), prop, tier], cwd=VERIF, capture_output=True, text=True, env=env, timeout=7200)
        out = p.stdout + p.stderr
        rc = p.returncode
    finally:
        sh("git -C %s worktree remove --force %s" % (REPO, wt))
    lines = [l for l in out.splitlines() if l.startswith(("VIOLATION", "ENGINE-ERROR", "UNCONFIRMED", "INCONCLUSIVE", "KNOWN-FINDING")) or " cubes, " in l]
    print("seed=%s check=%s %s rc=%d %.0fs" % (name, prop, tier, rc, time.time() - t0))
    for l in lines[:8]:
        print("   ", l[:600])
    return rc


if __name__ == "__main__":
    if sys.argv[1] == "runwt":
        sys.exit(runwt(sys.argv[2], sys.argv[3], *(sys.argv[4:5])))
    if sys.argv[1] == "confirm":
        sys.exit(confirm(sys.argv[2], sys.argv[3]))
    if sys.argv[1] == "run":
        sys.exit(run(sys.argv[2], sys.argv[3], *(sys.argv[4:5])))
