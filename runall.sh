#!/bin/bash
# usage: runall.sh <tier> [ids...]   (development helper, not registered); VERIF_RUNALL_TIMEOUT seconds per check
tier=$1; shift
ids=${@:-C01 C02 C03 C04 C05 C06 C07 C08 C09 C10 C11 C12 C13 C14 C15 C16 C17 C18 C19 C20}
for p in $ids; do
  s=$(date +%s)
  timeout ${VERIF_RUNALL_TIMEOUT:-7200} ./check $p $tier > /tmp/runall_${tier}_$p.log 2>&1
  rc=$?
  echo "$p rc=$rc $(( $(date +%s)-s ))s :: $(grep -c VIOLATION /tmp/runall_${tier}_$p.log) viol :: $(tail -1 /tmp/runall_${tier}_$p.log | cut -c1-200)"
  grep -h "VIOLATION\|ENGINE-ERROR\|UNCONFIRMED\|INCONCLUSIVE\|KNOWN-FINDING" /tmp/runall_${tier}_$p.log | head -4 | cut -c1-400
  cp evidence/$p.json /tmp/evidence_${tier}_$p.json 2>/dev/null
done
