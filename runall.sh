#!/bin/bash
# usage: runall.sh <tier> [ids...]   (development helper, not registered)
tier=$1; shift
ids=${@:-C01 C02 C03 C04 C05 C06 C07 C08 C09 C10 C11 C12 C13 C14 C16 C17 C18}
for p in $ids; do
  s=$(date +%s)
  ./check $p $tier > /tmp/runall_$p.log 2>&1
  rc=$?
  echo "$p rc=$rc $(( $(date +%s)-s ))s :: $(grep -c VIOLATION /tmp/runall_$p.log) viol :: $(tail -1 /tmp/runall_$p.log | cut -c1-200)"
  grep -h "VIOLATION\|ENGINE-ERROR\|UNCONFIRMED\|INCONCLUSIVE\|KNOWN-FINDING" /tmp/runall_$p.log | head -4 | cut -c1-400
done
